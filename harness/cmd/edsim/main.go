// edsim drives the real reconcilers of DataDog/extendeddaemonset in a simulated cluster and writes traces.
package main

import (
	"flag"
	"fmt"
	"os"

	"verif/harness/sim"
)

func main() {
	if len(os.Args) < 2 {
		fmt.Fprintln(os.Stderr, "usage: edsim <subcommand> [flags]")
		os.Exit(2)
	}
	sub := os.Args[1]
	fs := flag.NewFlagSet(sub, flag.ExitOnError)
	out := fs.String("out", "", "output file (ndjson)")
	seed := fs.Int64("seed", 1, "seed")
	n := fs.Int("n", 10, "number of traces")
	steps := fs.Int("steps", 150, "steps per random walk")
	in := fs.String("in", "", "input file")
	tier := fs.String("tier", "quick", "tier")
	_ = fs.Parse(os.Args[2:])
	switch sub {
	case "smoke":
		sim.Smoke(os.Stdout)
	default:
		if f, ok := sim.Subcommands[sub]; ok {
			os.Exit(f(sim.CLIArgs{Out: *out, Seed: *seed, N: *n, Steps: *steps, In: *in, Tier: *tier}))
		}
		fmt.Fprintln(os.Stderr, "unknown subcommand", sub)
		os.Exit(2)
	}
}
