package sim

import (
	"bufio"
	"encoding/json"
	"fmt"
	"os"
	"reflect"
	"runtime"
	"strings"
	"sync"
	"time"

	"github.com/go-logr/logr"
	corev1 "k8s.io/api/core/v1"
	metav1 "k8s.io/apimachinery/pkg/apis/meta/v1"
	"k8s.io/apimachinery/pkg/util/intstr"

	edsv1 "github.com/DataDog/extendeddaemonset/api/v1alpha1"
	"github.com/DataDog/extendeddaemonset/controllers/extendeddaemonsetreplicaset/scheduler"
	"github.com/DataDog/extendeddaemonset/pkg/controller/utils"
)

// ---- function-level conformance (binding B3 for pure functions): TLC enumerates input vectors, the harness calls
// the real functions and writes (input, output) pairs, a TLA+ judgement module evaluates every pair.

// FnVector is one input vector; Fn selects the function under test.
type FnVector struct {
	Fn string `json:"fn"`
	// labels
	Labels [][]string `json:"labels"` // each label: [k1, k2, ..., kn] the characters of the key; the value is derived from the key
	// defaults
	Spec map[string]string `json:"spec"`
	Mode string            `json:"mode"`
	Store string           `json:"store"` // nodes | nomatch | empty: the nodes of the store the reconcilers run on
	// metrics
	Kind   string         `json:"kind"`
	Status map[string]int `json:"status"`
	Flags  map[string]bool `json:"flags"`
	CPaused string         `json:"cpaused"` // none | true | false | falseReason: the EDS's Canary-Paused condition
	// fitness
	Node        *FitNode          `json:"node"`
	Sel         map[string]string `json:"sel"`
	Affinity    *FitAffinity      `json:"affinity"`
	Tolerations []FitToleration   `json:"tolerations"`
}

// FitNode, FitAffinity, ... are the fitness vectors of Gen_Fitness.tla.
type FitNode struct {
	Name   string            `json:"name"`
	Labels map[string]string `json:"labels"`
	Taints []struct {
		Key, Value, Effect string
	} `json:"taints"`
}

// FitExpr is a node selector requirement.
type FitExpr struct {
	Key    string   `json:"key"`
	Op     string   `json:"op"`
	Values []string `json:"values"`
}

// FitAffinity is the required node affinity of a vector.
type FitAffinity struct {
	Kind  string `json:"kind"`
	Terms []struct {
		Exprs  []FitExpr `json:"exprs"`
		Fields []FitExpr `json:"fields"`
	} `json:"terms"`
}

// FitToleration is a toleration of a vector.
type FitToleration struct {
	Key    string `json:"key"`
	Op     string `json:"op"`
	Value  string `json:"value"`
	Effect string `json:"effect"`
}

func fnFitness(v *FnVector) map[string]interface{} {
	node := &corev1.Node{ObjectMeta: metav1.ObjectMeta{Name: v.Node.Name, Labels: map[string]string{}}}
	for k, x := range v.Node.Labels {
		if x != "" {
			node.Labels[k] = x
		}
	}
	for _, t := range v.Node.Taints {
		node.Spec.Taints = append(node.Spec.Taints, corev1.Taint{Key: t.Key, Value: t.Value, Effect: corev1.TaintEffect(t.Effect)})
	}
	pod := &corev1.Pod{}
	for k, x := range v.Sel {
		if x != "" {
			if pod.Spec.NodeSelector == nil {
				pod.Spec.NodeSelector = map[string]string{}
			}
			pod.Spec.NodeSelector[k] = x
		}
	}
	reqs := func(es []FitExpr) []corev1.NodeSelectorRequirement {
		var out []corev1.NodeSelectorRequirement
		for _, e := range es {
			out = append(out, corev1.NodeSelectorRequirement{Key: e.Key, Operator: corev1.NodeSelectorOperator(e.Op), Values: e.Values})
		}
		return out
	}
	switch v.Affinity.Kind {
	case "preferredOnly":
		pod.Spec.Affinity = &corev1.Affinity{NodeAffinity: &corev1.NodeAffinity{PreferredDuringSchedulingIgnoredDuringExecution: []corev1.PreferredSchedulingTerm{{Weight: 1,
			Preference: corev1.NodeSelectorTerm{MatchExpressions: []corev1.NodeSelectorRequirement{{Key: "k1", Operator: corev1.NodeSelectorOpIn, Values: []string{"zzz"}}}}}}}}
	case "required":
		ns := &corev1.NodeSelector{NodeSelectorTerms: []corev1.NodeSelectorTerm{}}
		for _, t := range v.Affinity.Terms {
			ns.NodeSelectorTerms = append(ns.NodeSelectorTerms, corev1.NodeSelectorTerm{MatchExpressions: reqs(t.Exprs), MatchFields: reqs(t.Fields)})
		}
		pod.Spec.Affinity = &corev1.Affinity{NodeAffinity: &corev1.NodeAffinity{RequiredDuringSchedulingIgnoredDuringExecution: ns}}
	}
	for _, t := range v.Tolerations {
		pod.Spec.Tolerations = append(pod.Spec.Tolerations, corev1.Toleration{Key: t.Key, Operator: corev1.TolerationOperator(t.Op), Value: t.Value, Effect: corev1.TaintEffect(t.Effect)})
	}
	fit := false
	p := safely(func() { fit = scheduler.CheckNodeFitness(logr.Discard(), pod, node) })
	return map[string]interface{}{"fit": fit, "panic": p}
}

func safely(f func()) (panicked bool) {
	defer func() {
		if r := recover(); r != nil {
			panicked = true
		}
	}()
	f()
	return false
}

func fnLabels(v *FnVector) map[string]interface{} {
	m := map[string]string{}
	for _, ks := range v.Labels {
		k := strings.Join(ks, "")
		m[k] = "val(" + k + ")"
	}
	obj := &metav1.ObjectMeta{Labels: m}
	var keys, vals []string
	p := safely(func() { keys, vals = utils.BuildInfoLabels(obj) })
	if keys == nil {
		keys = []string{}
	}
	if vals == nil {
		vals = []string{}
	}
	return map[string]interface{}{"keys": keys, "values": vals, "panic": p, "n": len(m)}
}

// ---- defaults lattice ----

func dur(s string) *metav1.Duration {
	switch s {
	case "", "absent":
		return nil
	}
	d, err := time.ParseDuration(s)
	if err != nil {
		return nil
	}
	return &metav1.Duration{Duration: d}
}

func ios(s string) *intstr.IntOrString {
	if s == "" || s == "absent" {
		return nil
	}
	v := intstr.Parse(s)
	return &v
}

func i32(s string) *int32 {
	if s == "" || s == "absent" {
		return nil
	}
	var n int32
	fmt.Sscanf(s, "%d", &n)
	return &n
}

func bptr(s string) *bool {
	switch s {
	case "true":
		return bp(true)
	case "false":
		return bp(false)
	}
	return nil
}

// BuildSpecFromLattice builds a spec from the lattice point (field -> abstract value).
func BuildSpecFromLattice(c *Cluster, f map[string]string) edsv1.ExtendedDaemonSetSpec {
	var spec edsv1.ExtendedDaemonSetSpec
	spec.Template = *c.Templates["A"].DeepCopy()
	spec.Template.Name = f["tmplName"]
	ru := &spec.Strategy.RollingUpdate
	ru.MaxUnavailable = ios(f["maxUnavailable"])
	ru.MaxPodSchedulerFailure = ios(f["maxSchedFailure"])
	ru.MaxParallelPodCreation = i32(f["maxParallel"])
	ru.SlowStartIntervalDuration = dur(f["ssInterval"])
	ru.SlowStartAdditiveIncrease = ios(f["ssIncrease"])
	spec.Strategy.ReconcileFrequency = dur(f["frequency"])
	if f["canary"] == "present" {
		cn := &edsv1.ExtendedDaemonSetSpecStrategyCanary{}
		cn.Replicas = ios(f["cReplicas"])
		cn.Duration = dur(f["cDuration"])
		cn.NoRestartsDuration = dur(f["cNoRestarts"])
		cn.ValidationMode = edsv1.ExtendedDaemonSetSpecStrategyCanaryValidationMode(f["cMode"])
		if f["cSelector"] == "present" {
			cn.NodeSelector = &metav1.LabelSelector{MatchLabels: map[string]string{CanaryNodeLabel: "yes"}}
		}
		if f["cAntiAffinity"] == "present" {
			cn.NodeAntiAffinityKeys = []string{ZoneLabel}
		}
		if f["autoPause"] == "present" {
			cn.AutoPause = &edsv1.ExtendedDaemonSetSpecStrategyCanaryAutoPause{Enabled: bptr(f["apEnabled"]), MaxRestarts: i32(f["apMaxRestarts"]), MaxSlowStartDuration: dur(f["apMaxSlowStart"])}
		}
		if f["autoFail"] == "present" {
			cn.AutoFail = &edsv1.ExtendedDaemonSetSpecStrategyCanaryAutoFail{Enabled: bptr(f["afEnabled"]), MaxRestarts: i32(f["afMaxRestarts"]),
				MaxRestartsDuration: dur(f["afMaxRestartsDur"]), CanaryTimeout: dur(f["afTimeout"])}
		}
		spec.Strategy.Canary = cn
	}
	return spec
}

// derefsSet says whether every field the reconcilers dereference is set.
func derefsSet(s *edsv1.ExtendedDaemonSetSpec) bool {
	ru := s.Strategy.RollingUpdate
	if ru.MaxUnavailable == nil || ru.MaxParallelPodCreation == nil || ru.MaxPodSchedulerFailure == nil || ru.SlowStartIntervalDuration == nil || ru.SlowStartAdditiveIncrease == nil {
		return false
	}
	if s.Strategy.ReconcileFrequency == nil {
		return false
	}
	if c := s.Strategy.Canary; c != nil {
		if c.Replicas == nil || c.NodeSelector == nil || c.AutoPause == nil || c.AutoPause.Enabled == nil || c.AutoPause.MaxRestarts == nil ||
			c.AutoFail == nil || c.AutoFail.Enabled == nil || c.AutoFail.MaxRestarts == nil || c.ValidationMode == "" {
			return false
		}
		if c.ValidationMode == edsv1.ExtendedDaemonSetSpecStrategyCanaryValidationModeAuto && c.Duration == nil {
			return false
		}
	}
	return true
}

// preserved: every pointer / non-zero value the user set is unchanged by defaulting (apart from template.name).
func preserved(in, out interface{}) bool {
	return preservedV(reflect.ValueOf(in), reflect.ValueOf(out))
}

func preservedV(a, b reflect.Value) bool {
	switch a.Kind() {
	case reflect.Ptr:
		if a.IsNil() {
			return true // unset: defaulting may fill it
		}
		if b.IsNil() {
			return false
		}
		return preservedV(a.Elem(), b.Elem())
	case reflect.Struct:
		for i := 0; i < a.NumField(); i++ {
			if !preservedV(a.Field(i), b.Field(i)) {
				return false
			}
		}
		return true
	case reflect.String:
		return a.String() == "" || a.String() == b.String()
	case reflect.Slice, reflect.Map:
		if a.Len() == 0 {
			return true
		}
		return reflect.DeepEqual(a.Interface(), b.Interface())
	default:
		if a.IsZero() {
			return true
		}
		return reflect.DeepEqual(a.Interface(), b.Interface())
	}
}

func validateClass(err error) string {
	switch err {
	case nil:
		return "ok"
	case edsv1.ErrInvalidAutoFailRestarts:
		return "restarts"
	case edsv1.ErrInvalidCanaryTimeout:
		return "timeout"
	case edsv1.ErrDurationWithManualValidationMode:
		return "manualDuration"
	case edsv1.ErrNoRestartsDurationWithManualValidationMode:
		return "manualNoRestarts"
	}
	return "other"
}

func fnDefaults(v *FnVector) map[string]interface{} {
	c := NewCluster(Options{DefaultMode: v.Mode})
	for _, id := range []string{"A", "B"} {
		c.AddTemplate(id, StdTemplate(id))
	}
	mode := edsv1.ExtendedDaemonSetSpecStrategyCanaryValidationMode(v.Mode)
	spec := BuildSpecFromLattice(c, v.Spec)
	out := map[string]interface{}{"panicDefault": false, "panicValidate": false, "panicReconcile": false}
	in := spec.DeepCopy()
	var d1, d2 *edsv1.ExtendedDaemonSetSpec
	out["panicDefault"] = safely(func() {
		d1 = edsv1.DefaultExtendedDaemonSetSpec(spec.DeepCopy(), mode)
		d2 = edsv1.DefaultExtendedDaemonSetSpec(d1.DeepCopy(), mode)
	})
	if d1 == nil || d2 == nil {
		return out
	}
	out["idempotent"] = reflect.DeepEqual(d1, d2)
	inNoName := in.DeepCopy()
	inNoName.Template.Name = ""
	out["preserved"] = preserved(*inNoName, *d1)
	out["nameCleared"] = d1.Template.Name == ""
	out["derefsSet"] = derefsSet(d1)
	e := &edsv1.ExtendedDaemonSet{Spec: *d1}
	out["isDefaulted"] = edsv1.IsDefaultedExtendedDaemonSet(e)
	e0 := &edsv1.ExtendedDaemonSet{Spec: *in}
	out["wasDefaulted"] = edsv1.IsDefaultedExtendedDaemonSet(e0)
	var verr error
	out["panicValidate"] = safely(func() { verr = edsv1.ValidateExtendedDaemonSetSpec(d1.DeepCopy()) })
	out["validate"] = validateClass(verr)
	// the defaulted projection the judge compares with its own table
	proj := map[string]interface{}{}
	if cn := d1.Strategy.Canary; cn != nil {
		proj["cMode"] = string(cn.ValidationMode)
		proj["cDurationSet"] = cn.Duration != nil
		proj["cNoRestartsSet"] = cn.NoRestartsDuration != nil
		if cn.AutoPause != nil && cn.AutoPause.MaxRestarts != nil {
			proj["apMaxRestarts"] = int(*cn.AutoPause.MaxRestarts)
		}
		if cn.AutoFail != nil && cn.AutoFail.MaxRestarts != nil {
			proj["afMaxRestarts"] = int(*cn.AutoFail.MaxRestarts)
		}
	}
	out["defaulted"] = proj

	// reconciliation never crashes: a store holding the (raw) spec, 2 nodes, a deployment, a template change
	d := &Driver{C: c, Strategy: map[string]StrategyConfig{}}
	panics := 0
	loops := false
	run := func(a Action) {
		ev, ok := d.Apply(a)
		if ok && ev.Res.Panic {
			panics++
		}
	}
	if v.Store != "empty" {
		for _, n := range []string{"n1", "n2"} {
			_ = c.NodeAdd(n, []string{"A", "B"}, v.Store != "nomatch", "z1")
		}
	}
	obj := &edsv1.ExtendedDaemonSet{ObjectMeta: metav1.ObjectMeta{Namespace: "ns1", Name: "foo", UID: "eds-uid", CreationTimestamp: nowT()}, Spec: *in}
	if err := c.base.Create(bg, obj); err == nil {
		for i := 0; i < 3; i++ {
			run(Action{Op: "EDSReconcile", Key: Key})
		}
		if e2, err := c.GetEDS("ns1", "foo"); err == nil {
			// reconciliation never loops on defaulting: after the first reconcile the object is recognised as defaulted
			loops = !edsv1.IsDefaultedExtendedDaemonSet(e2)
		}
		for round := 0; round < 3; round++ {
			run(Action{Op: "Tick", V: "1"})
			run(Action{Op: "KRound"})
			run(Action{Op: "EDSReconcile", Key: Key})
			run(Action{Op: "ERSReconcile", Key: Key, T: "A"})
			run(Action{Op: "ERSReconcile", Key: Key, T: "B"})
			if round == 0 {
				run(Action{Op: "SetTemplate", Key: Key, T: "B"})
			}
		}
	}
	out["panicReconcile"] = panics > 0
	out["panics"] = panics
	out["defaultingLoops"] = loops
	return out
}

func runFn(a CLIArgs) int {
	in, err := os.Open(a.In)
	if err != nil {
		fmt.Fprintln(os.Stderr, err)
		return 2
	}
	defer in.Close()
	f, err := os.Create(a.Out)
	if err != nil {
		fmt.Fprintln(os.Stderr, err)
		return 2
	}
	defer f.Close()
	w := bufio.NewWriterSize(f, 1<<20)
	sc := bufio.NewScanner(in)
	sc.Buffer(make([]byte, 1<<20), 1<<26)
	var lines []string
	for sc.Scan() {
		line := strings.TrimSpace(sc.Text())
		if line != "" {
			lines = append(lines, line)
		}
	}
	results := make([][]byte, len(lines))
	bad := make([]error, len(lines))
	// vectors are independent (one cluster each): evaluate them on all cores, write the pairs in input order
	workers := runtime.NumCPU()
	var wg sync.WaitGroup
	next := make(chan int, len(lines))
	for i := range lines {
		next <- i
	}
	close(next)
	for k := 0; k < workers; k++ {
		wg.Add(1)
		go func() {
			defer wg.Done()
			for i := range next {
				var raw map[string]interface{}
				var v FnVector
				if err := json.Unmarshal([]byte(lines[i]), &v); err != nil {
					bad[i] = err
					continue
				}
				_ = json.Unmarshal([]byte(lines[i]), &raw)
				var out map[string]interface{}
				switch v.Fn {
				case "labels":
					out = fnLabels(&v)
				case "defaults":
					out = fnDefaults(&v)
				case "metrics":
					out = fnMetrics(&v)
				case "fitness":
					out = fnFitness(&v)
				default:
					bad[i] = fmt.Errorf("unknown fn %s", v.Fn)
					continue
				}
				results[i], _ = json.Marshal(map[string]interface{}{"in": raw, "out": out})
			}
		}()
	}
	wg.Wait()
	for i := range lines {
		if bad[i] != nil {
			fmt.Fprintln(os.Stderr, "bad vector:", bad[i])
			return 2
		}
		w.Write(results[i])
		w.WriteByte('\n')
	}
	w.Flush()
	fmt.Printf("{\"vectors\":%d}\n", len(lines))
	return 0
}

func init() {
	Subcommands["fn"] = runFn
}
