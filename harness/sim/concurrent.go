package sim

import (
	"fmt"
	"math/rand"
	"os"
	"sync"
	"sync/atomic"
	"time"
)

// ---- concurrent mode (C17): the four reconcilers, a kubelet, a user and the clock run as goroutines against one
// store, with some pod API calls failing.  The binary is built with the race detector; states sampled during the run
// and the sequential convergence tail afterwards go to the trace and are judged by Trace.tla.

func runConcurrent(a CLIArgs) int {
	f, err := os.Create(a.Out)
	if err != nil {
		fmt.Fprintln(os.Stderr, err)
		return 2
	}
	defer f.Close()
	d := NewDriver(Options{}, f)
	totalCalls := 0
	for run := 0; run < a.N; run++ {
		r := rand.New(rand.NewSource(a.Seed*7919 + int64(run)))
		d.Reset(Options{AffinityMode: run%2 == 1}, fmt.Sprintf("concurrent-%d-%d", a.Seed, run))
		x := Scn{D: d, R: r}
		sc := BaseStrategy()
		if run%3 == 1 {
			sc = CanaryStrategy("1")
		}
		sc.MaxUnavailable = "2"
		nodes := 4 + run%5
		x.Setup(nodes, "A", sc)
		x.do(Action{Op: "NodeGroup", N: "n1", V: "g1"})
		x.do(Action{Op: "CreateSetting", Key: Key, V: "s1", W: "foo|g1|r1|", I: 3})
		x.do(Action{Op: "CreateSetting", Key: Key, V: "s2", W: "foo|g1|r2|", I: 2})
		c := d.C
		switch run % 4 {
		case 1:
			c.PodFault = "alt"
		case 2:
			c.PodFault = "first"
		case 3:
			c.PodFault = "all"
		}
		var stop int32
		var wg sync.WaitGroup
		loop := func(fn func()) {
			wg.Add(1)
			go func() {
				defer wg.Done()
				for atomic.LoadInt32(&stop) == 0 {
					fn()
				}
			}()
		}
		panics := int32(0)
		rec := func(actor, ns, name string) {
			ev := c.Reconcile(actor, ns, name)
			if ev.Res.Panic {
				atomic.AddInt32(&panics, 1)
			}
		}
		loop(func() { rec("eds", "ns1", "foo") })
		loop(func() {
			for _, rs := range c.RSOf("ns1", "foo") {
				rec("ers", "ns1", rs.Name)
			}
		})
		loop(func() { rec("setting", "ns1", "s1"); rec("setting", "ns1", "s2") })
		loop(func() { rec("podtemplate", "ns1", "foo") })
		loop(func() { c.tickMu.Lock(); c.KRound(); c.tickMu.Unlock(); time.Sleep(200 * time.Microsecond) })
		loop(func() { c.tickMu.Lock(); c.Tick(1); c.tickMu.Unlock(); time.Sleep(500 * time.Microsecond) })
		// the user
		tmpls := []string{"B", "A", "C", "B"}
		for i := 0; i < a.Steps; i++ {
			time.Sleep(2 * time.Millisecond)
			if i%(a.Steps/4+1) == 0 {
				c.tickMu.Lock()
				_ = c.SetTemplate("ns1", "foo", tmpls[(i/(a.Steps/4+1))%len(tmpls)])
				c.tickMu.Unlock()
			}
			if i%7 == 3 {
				c.tickMu.Lock()
				d.Emit(Event{Ev: "sample", Key: Key, Args: map[string]string{"_": ""}})
				c.tickMu.Unlock()
			}
		}
		atomic.StoreInt32(&stop, 1)
		wg.Wait()
		c.PodFault = ""
		c.mu.Lock()
		totalCalls += c.seq
		c.mu.Unlock()
		d.Emit(Event{Ev: "concurrentEnd", Key: Key, Args: map[string]string{"_": "", "panics": fmt.Sprint(panics)}, Res: Result{Panic: panics > 0}})
		x.Unpause()
		d.Converge(80)
	}
	d.Flush()
	fmt.Printf("{\"runs\":%d,\"events\":%d,\"api_calls\":%d}\n", a.N, d.NEvents, totalCalls)
	return 0
}

func init() {
	Subcommands["concurrent"] = runConcurrent
}
