package sim

import (
	"fmt"
	"math/rand"
	"os"
	"sort"
	"strconv"
	"strings"
)

// Key is the EDS most scenarios use.
const Key = "ns1/foo"

func bp(b bool) *bool { return &b }

// BaseStrategy is the rolling-update strategy of the scenario corpus (units: 1 = 60 s).
func BaseStrategy() StrategyConfig {
	return StrategyConfig{MaxUnavailable: "1", MaxSchedFailure: "0", MaxParallel: 250, SlowStartInterval: 1, SlowStartIncrease: "5", Frequency: 1}
}

// CanaryStrategy adds a canary block (auto validation, duration 5, noRestartsDuration 2).
func CanaryStrategy(replicas string) StrategyConfig {
	s := BaseStrategy()
	s.Canary, s.CReplicas, s.CDuration, s.CNoRestarts, s.CMode = true, replicas, 5, 2, "auto"
	s.APEnabled, s.APMaxRestarts, s.AFEnabled, s.AFMaxRestarts = bp(true), 2, bp(true), 5
	s.AFTimeout = 0
	return s
}

// Scn is a scenario under construction.
type Scn struct {
	D *Driver
	R *rand.Rand
}

func (x Scn) do(a Action) (Event, bool) { return x.D.Apply(a) }

// Setup creates nodes (all fitting all templates), the EDS with template tmpl and converges.
func (x Scn) Setup(nodes int, tmpl string, sc StrategyConfig) {
	x.D.Strategy[Key] = sc
	for i := 1; i <= nodes; i++ {
		z := "z1"
		if i%2 == 0 {
			z = "z2"
		}
		x.do(Action{Op: "NodeAdd", N: "n" + strconv.Itoa(i), V: "A,B,C", W: "c;z=" + z})
	}
	x.do(Action{Op: "CreateEDS", Key: Key, T: tmpl})
	x.D.Converge(12)
}

// Rounds runs k fair rounds.
func (x Scn) Rounds(k int) {
	for i := 0; i < k; i++ {
		x.D.Round()
	}
}

// EDS / ERS shorthands.
func (x Scn) EDS()            { x.do(Action{Op: "EDSReconcile", Key: Key}) }
func (x Scn) ERS(t string)    { x.do(Action{Op: "ERSReconcile", Key: Key, T: t}) }
func (x Scn) Tick(n int)      { x.do(Action{Op: "Tick", V: strconv.Itoa(n)}) }
func (x Scn) Template(t string) { x.do(Action{Op: "SetTemplate", Key: Key, T: t}) }
func (x Scn) Ann(k, v string) { x.do(Action{Op: "SetAnnotation", Key: Key, V: k, W: v}) }
func (x Scn) K(op, n string, i int, v string) { x.do(Action{Op: op, N: n, I: i, V: v}) }

// CanaryPods returns the ids of the live pods of the canary replica set on the canary nodes.
func (x Scn) CanaryPods() []int {
	st := x.D.C.Project()
	var out []int
	for _, e := range st.EDS {
		if e.Key != Key || !e.HasCanary {
			continue
		}
		for _, p := range st.Pods {
			if p.RSL == e.CanaryRS && !p.Term {
				for _, n := range e.CNodes {
					if n == p.Node {
						out = append(out, p.ID)
					}
				}
			}
		}
	}
	return out
}

// AwaitCanaryPods runs fair rounds until at least one canary pod exists (at most max rounds).
func (x Scn) AwaitCanaryPods(max int) []int {
	for i := 0; i < max; i++ {
		if ps := x.CanaryPods(); len(ps) > 0 {
			return ps
		}
		x.D.Round()
	}
	return x.CanaryPods()
}

// RestartCanaryPods restarts every canary pod n times.
func (x Scn) RestartCanaryPods(n int) {
	for _, id := range x.CanaryPods() {
		for i := 0; i < n; i++ {
			x.K("KRestart", "#", id, "Error")
		}
	}
}

// Unpause clears the annotations that legitimately stop convergence.
func (x Scn) Unpause() {
	for _, k := range []string{"ru-paused", "frozen"} {
		x.Ann(k, "")
	}
	// what `kubectl eds canary unpause` writes
	x.Ann("c-paused", "false")
	x.Ann("c-unpaused", "true")
}

// Scenario is a named scenario of the corpus.
type Scenario struct {
	Name  string
	Props []string // properties it mainly serves ("*" = all)
	Run   func(x Scn)
}

func has(props []string, p string) bool {
	for _, q := range props {
		if q == p || q == "*" {
			return true
		}
	}
	return false
}

// Corpus is the scenario corpus (DESIGN section 4, drivers (1)).
var Corpus = []Scenario{
	{"first-deployment", []string{"*"}, func(x Scn) {
		x.Setup(3, "A", BaseStrategy())
	}},
	{"rolling-update", []string{"*"}, func(x Scn) {
		x.Setup(3, "A", BaseStrategy())
		x.Template("B")
		x.D.Converge(30)
	}},
	{"rolling-update-mu2-unready", []string{"C03", "C02", "C09", "C01", "C14"}, func(x Scn) {
		sc := BaseStrategy()
		sc.MaxUnavailable = "2"
		x.Setup(5, "A", sc)
		x.K("KUnready", "n1", 1, "")
		x.K("KUnready", "n2", 1, "")
		x.Template("B")
		x.D.Converge(40)
	}},
	{"rolling-update-percent-unfit-nodes", []string{"C03", "C09", "C02"}, func(x Scn) {
		// percentages resolve against the targeted nodes only, not against every node of the cluster
		sc := BaseStrategy()
		sc.MaxUnavailable = "25%"
		sc.SlowStartIncrease = "25%"
		for i := 5; i <= 8; i++ {
			x.do(Action{Op: "NodeAdd", N: "n" + strconv.Itoa(i), V: "", W: "z=z1"})
		}
		x.Setup(4, "A", sc)
		x.Template("B")
		x.D.Converge(60)
	}},
	{"rolling-update-percent-few-nodes", []string{"C02", "C03"}, func(x Scn) {
		// a percentage of a small number of nodes still rounds up to one pod: the rollout must not stall
		sc := BaseStrategy()
		sc.MaxUnavailable = "25%"
		sc.SlowStartIncrease = "10%" // 0.3 pod per interval on three nodes: rounds up to one, also for the first deployment
		x.Setup(3, "A", sc)
		x.Template("B")
		x.D.Converge(40)
		x.do(Action{Op: "NodeTaint", N: "n2", V: "on"})
		x.do(Action{Op: "NodeTaint", N: "n3", V: "on"})
		sc.MaxUnavailable = "50%"
		x.D.Strategy[Key] = sc
		x.do(Action{Op: "SetStrategy", Key: Key})
		x.Template("C")
		x.D.Converge(40)
	}},
	{"rolling-update-percent", []string{"C03", "C02", "C09", "C14"}, func(x Scn) {
		sc := BaseStrategy()
		sc.MaxUnavailable = "50%"
		sc.SlowStartIncrease = "34%"
		x.Setup(4, "A", sc)
		x.K("KUnready", "n3", 1, "")
		x.Template("B")
		x.D.Converge(40)
	}},
	{"revert-reuses-rs", []string{"C13", "C02", "C14", "C05"}, func(x Scn) {
		x.Setup(3, "A", BaseStrategy())
		x.Template("B")
		x.Rounds(3)
		x.Template("A")
		x.D.Converge(30)
		x.Template("B")
		x.Rounds(2)
		x.Template("C")
		x.D.Converge(40)
	}},
	{"freeze-then-ramp", []string{"C09", "C08", "C02"}, func(x Scn) {
		// time spent frozen / paused must not count as slow-start ramp time
		sc := BaseStrategy()
		sc.SlowStartIncrease = "1"
		x.Setup(2, "A", sc)
		x.Ann("frozen", "true")
		x.Rounds(1)
		for i := 3; i <= 7; i++ {
			x.do(Action{Op: "NodeAdd", N: "n" + strconv.Itoa(i), V: "A,B,C", W: "z=z1"})
		}
		x.Rounds(3)
		x.Ann("frozen", "")
		x.Rounds(2)
		x.Ann("ru-paused", "true")
		x.Rounds(3)
		x.Ann("ru-paused", "false")
		x.D.Converge(40)
	}},
	{"pause-freeze", []string{"C08", "C02", "C14", "C09"}, func(x Scn) {
		x.Setup(4, "A", BaseStrategy())
		x.Template("B")
		x.Rounds(2)
		x.Ann("ru-paused", "true")
		x.do(Action{Op: "NodeAdd", N: "n5", V: "A,B,C", W: "z=z1"})
		x.Rounds(3)
		x.Ann("frozen", "true")
		x.do(Action{Op: "NodeAdd", N: "n6", V: "A,B,C", W: "z=z1"})
		x.Rounds(3)
		x.Ann("ru-paused", "false")
		x.Rounds(2)
		x.Ann("frozen", "")
		x.D.Converge(40)
	}},
	{"node-churn", []string{"C01", "C02", "C03", "C14", "C11"}, func(x Scn) {
		x.Setup(4, "A", BaseStrategy())
		x.do(Action{Op: "NodeRemove", N: "n2"})
		x.Rounds(2)
		x.do(Action{Op: "NodeTaint", N: "n3", V: "on"})
		x.Template("B")
		x.Rounds(3)
		x.do(Action{Op: "NodeAdd", N: "n2", V: "A,B,C", W: "c;z=z2"})
		x.do(Action{Op: "NodeTaint", N: "n3", V: "off"})
		x.D.Converge(40)
	}},
	{"duplicates-and-failed", []string{"C01", "C02", "C03", "C12"}, func(x Scn) {
		x.Setup(3, "A", BaseStrategy())
		x.do(Action{Op: "ForeignPod", Key: Key, N: "n1", V: "dup"})
		x.do(Action{Op: "ForeignPod", Key: Key, N: "n2", V: "unrelated"})
		x.do(Action{Op: "ForeignPod", Key: Key, N: "n2", V: "otherns"})
		x.Rounds(2)
		x.K("KFail", "n3", 1, "")
		x.Rounds(2)
		x.K("KLost", "n2", 1, "")
		x.Rounds(3)
		x.D.Converge(20)
	}},
	{"canary-auto-promote", []string{"C04", "C05", "C02", "C14", "C15", "C08", "C13", "C11"}, func(x Scn) {
		x.Setup(4, "A", CanaryStrategy("1"))
		x.Template("B")
		x.Rounds(3)
		x.D.Converge(40)
	}},
	{"canary-two-replicas-second-change", []string{"C04", "C05", "C15", "C13", "C02"}, func(x Scn) {
		x.Setup(4, "A", CanaryStrategy("2"))
		x.Template("B")
		x.Rounds(3)
		x.Template("C")
		x.Rounds(3)
		x.D.Converge(50)
	}},
	{"canary-manual-validate", []string{"C05", "C04", "C19", "C08", "C02"}, func(x Scn) {
		sc := CanaryStrategy("1")
		sc.CMode, sc.CDuration, sc.CNoRestarts = "manual", 0, -1
		x.Setup(3, "A", sc)
		x.Template("B")
		x.Rounds(8)
		x.Ann("c-valid", "B")
		x.D.Converge(40)
	}},
	{"canary-pause-unpause", []string{"C08", "C05", "C04", "C06", "C14"}, func(x Scn) {
		x.Setup(4, "A", CanaryStrategy("2"))
		x.Template("B")
		x.EDS()
		x.Ann("c-paused", "true")
		x.Rounds(7)
		x.Ann("c-paused", "false")
		x.Ann("c-unpaused", "true")
		x.D.Converge(40)
	}},
	{"canary-slowstart-cannotstart", []string{"C06", "C08", "C14"}, func(x Scn) {
		sc := CanaryStrategy("2")
		sc.APMaxSlowStart, sc.AFTimeout = 2, 12
		x.Setup(4, "A", sc)
		x.Template("B")
		ps := x.AwaitCanaryPods(8)
		if len(ps) > 0 {
			x.K("KWaiting", "#", ps[0], "ErrImagePull")
		}
		x.Rounds(1)
		x.Rounds(3)
		x.Ann("c-paused", "false")
		x.Ann("c-unpaused", "true")
		x.Rounds(2)
		x.D.Converge(60)
	}},
	{"canary-autopause-restarts", []string{"C06", "C08", "C05", "C14"}, func(x Scn) {
		x.Setup(3, "A", CanaryStrategy("1"))
		x.Template("B")
		x.AwaitCanaryPods(8)
		x.RestartCanaryPods(3)
		x.Rounds(8)
		x.Ann("c-unpaused", "true")
		x.Rounds(3)
		x.D.Converge(40)
	}},
	{"canary-autofail-rollback", []string{"C07", "C06", "C05", "C02", "C14", "C04", "C11", "C13"}, func(x Scn) {
		x.Setup(3, "A", CanaryStrategy("1"))
		x.Template("B")
		x.AwaitCanaryPods(8)
		x.RestartCanaryPods(6)
		x.D.Converge(40)
	}},
	{"canary-fail-after-duration", []string{"C05", "C07"}, func(x Scn) {
		// the failing sync and the EDS reconcile race around the end of the duration
		x.Setup(3, "A", CanaryStrategy("1"))
		x.Template("B")
		x.AwaitCanaryPods(8)
		x.Tick(6)
		x.RestartCanaryPods(6)
		x.Tick(3)
		x.ERS("B")
		x.EDS()
		x.D.Converge(40)
	}},
	{"canary-percent", []string{"C15", "C04", "C02", "C14"}, func(x Scn) {
		x.Setup(4, "A", CanaryStrategy("50%"))
		x.Template("B")
		x.Rounds(4)
		x.D.Converge(50)
	}},
	{"canary-antiaffinity-selector", []string{"C15", "C04"}, func(x Scn) {
		sc := CanaryStrategy("2")
		sc.CAntiAffinity, sc.CSelector = true, true
		x.D.Strategy[Key] = sc
		x.do(Action{Op: "NodeAdd", N: "n1", V: "A,B,C", W: "c;z=z1"})
		x.do(Action{Op: "NodeAdd", N: "n2", V: "A,B,C", W: "c;z=z1"})
		x.do(Action{Op: "NodeAdd", N: "n3", V: "A,B,C", W: "c;z=z2"})
		x.do(Action{Op: "NodeAdd", N: "n4", V: "A,B,C", W: "z=z2"})
		x.do(Action{Op: "CreateEDS", Key: Key, T: "A"})
		x.D.Converge(12)
		x.Template("B")
		x.Rounds(4)
		x.do(Action{Op: "NodeCSel", N: "n4", V: "on"})
		x.D.Converge(50)
	}},
	{"canary-node-tainted", []string{"C01", "C15", "C04", "C02"}, func(x Scn) {
		// a canary node stops being eligible after it was selected
		x.Setup(4, "A", CanaryStrategy("2"))
		x.Template("B")
		x.AwaitCanaryPods(8)
		st := x.D.C.Project()
		if len(st.EDS[0].CNodes) > 0 {
			x.do(Action{Op: "NodeTaint", N: st.EDS[0].CNodes[0], V: "on"})
		}
		x.Rounds(4)
		if len(st.EDS[0].CNodes) > 1 {
			x.do(Action{Op: "NodeSetFits", N: st.EDS[0].CNodes[1], V: "A"})
		}
		x.Rounds(4)
		x.D.Converge(50)
	}},
	{"canary-antiaffinity-grow", []string{"C15", "C04"}, func(x Scn) {
		// the number of canary replicas is raised while the canary runs: additions must still spread over the zones
		sc := CanaryStrategy("2")
		sc.CAntiAffinity = true
		sc.CMode, sc.CDuration, sc.CNoRestarts = "manual", 0, -1
		x.D.Strategy[Key] = sc
		for i := 1; i <= 8; i++ {
			z := "z1"
			if i > 4 {
				z = "z2"
			}
			x.do(Action{Op: "NodeAdd", N: "n" + strconv.Itoa(i), V: "A,B,C", W: "c;z=" + z})
		}
		x.do(Action{Op: "CreateEDS", Key: Key, T: "A"})
		x.D.Converge(12)
		// the pods of zone z2 restarted, those of z1 did not: the least-restarts order lists all of z1 first, so only the
		// anti-affinity quota makes the selection spread
		for _, n := range []string{"n5", "n6", "n7", "n8"} {
			x.K("KRestart", n, 1, "Error")
			x.K("KRestart", n, 1, "Error")
		}
		x.do(Action{Op: "KRound"})
		x.Template("B")
		x.Rounds(3)
		sc.CReplicas = "4"
		x.D.Strategy[Key] = sc
		x.do(Action{Op: "SetStrategy", Key: Key})
		x.Rounds(3)
		sc.CReplicas = "5"
		x.D.Strategy[Key] = sc
		x.do(Action{Op: "SetStrategy", Key: Key})
		x.Rounds(3)
		x.Ann("c-valid", "B")
		x.D.Converge(60)
	}},
	{"canary-least-restarts", []string{"C15"}, func(x Scn) {
		sc := CanaryStrategy("2")
		x.D.Strategy[Key] = sc
		for i := 1; i <= 5; i++ {
			x.do(Action{Op: "NodeAdd", N: "n" + strconv.Itoa(i), V: "A,B,C", W: "c;z=z1"})
		}
		x.do(Action{Op: "CreateEDS", Key: Key, T: "A"})
		x.D.Converge(12)
		for i, n := range []string{"n1", "n2", "n4"} {
			for k := 0; k <= i; k++ {
				x.K("KRestart", n, 1, "Error")
			}
		}
		x.do(Action{Op: "KRound"})
		x.Template("B")
		x.Rounds(3)
		sc.CReplicas = "3"
		x.D.Strategy[Key] = sc
		x.do(Action{Op: "SetStrategy", Key: Key})
		x.D.Converge(60)
	}},
	{"canary-narrowing-template", []string{"C04", "C03", "C02"}, func(x Scn) {
		// the new template fits fewer nodes than the active one
		sc := CanaryStrategy("1")
		sc.CMode, sc.CDuration, sc.CNoRestarts = "manual", 0, -1
		x.D.Strategy[Key] = sc
		x.do(Action{Op: "NodeAdd", N: "n1", V: "A,B,C", W: "c;z=z1"})
		x.do(Action{Op: "NodeAdd", N: "n2", V: "A,B,C", W: "c;z=z1"})
		x.do(Action{Op: "NodeAdd", N: "n3", V: "A,B", W: "c;z=z1"})
		x.do(Action{Op: "NodeAdd", N: "n4", V: "A,B", W: "c;z=z1"})
		x.do(Action{Op: "CreateEDS", Key: Key, T: "A"})
		x.D.Converge(12)
		x.Template("C")
		x.Rounds(6)
		x.Ann("c-valid", "C")
		x.D.Converge(50)
	}},
	{"canary-strategy-removed", []string{"C16", "C14", "C02"}, func(x Scn) {
		// the user removes spec.strategy.canary while a canary is running
		x.Setup(3, "A", CanaryStrategy("1"))
		x.Template("B")
		x.AwaitCanaryPods(8)
		x.D.Strategy[Key] = BaseStrategy()
		x.do(Action{Op: "SetStrategy", Key: Key})
		// the canary replica set syncs before the ExtendedDaemonSet is reconciled again
		x.Tick(1)
		x.ERS("B")
		x.ERS("A")
		x.Rounds(4)
		x.D.Converge(40)
		// and with the ExtendedDaemonSet reconciled first
		x.D.Strategy[Key] = CanaryStrategy("1")
		x.do(Action{Op: "SetStrategy", Key: Key})
		x.Rounds(2)
		x.Template("C")
		x.AwaitCanaryPods(8)
		x.D.Strategy[Key] = BaseStrategy()
		x.do(Action{Op: "SetStrategy", Key: Key})
		x.D.Converge(40)
		x.K("KFail", "n1", 1, "")
		x.K("KFail", "n2", 1, "")
		x.K("KFail", "n3", 1, "")
		x.D.Converge(40)
	}},
	{"canary-replicas-lowered", []string{"C04", "C15"}, func(x Scn) {
		// the number of canary replicas is lowered while the canary runs: the list must not grow
		sc := CanaryStrategy("3")
		sc.CMode, sc.CDuration, sc.CNoRestarts = "manual", 0, -1
		x.Setup(6, "A", sc)
		x.Template("B")
		x.Rounds(3)
		sc.CReplicas = "2"
		x.D.Strategy[Key] = sc
		x.do(Action{Op: "SetStrategy", Key: Key})
		x.Rounds(3)
		// a percentage whose base shrinks
		sc.CReplicas = "50%"
		x.D.Strategy[Key] = sc
		x.do(Action{Op: "SetStrategy", Key: Key})
		x.Rounds(2)
		x.do(Action{Op: "NodeRemove", N: "n6"})
		x.do(Action{Op: "NodeRemove", N: "n5"})
		x.Rounds(4)
		x.Ann("c-valid", "B")
		x.D.Converge(60)
	}},
	{"canary-unfit-node-then-replicas-lowered", []string{"C15", "C04"}, func(x Scn) {
		// a selected node becomes unfit (tainted, still matching the canary selector) and the requested number drops below the
		// length of the list: the re-selection removes the unfit node and adds nothing
		sc := CanaryStrategy("3")
		sc.CMode, sc.CDuration, sc.CNoRestarts = "manual", 0, -1
		x.Setup(5, "A", sc)
		x.Template("B")
		x.Rounds(3)
		x.do(Action{Op: "NodeTaint", N: "n1", V: "on"})
		sc.CReplicas = "2"
		x.D.Strategy[Key] = sc
		x.do(Action{Op: "SetStrategy", Key: Key})
		x.Rounds(4)
		x.Ann("c-valid", "B")
		x.D.Converge(60)
	}},
	{"canary-validate-stale", []string{"C05", "C19"}, func(x Scn) {
		// a second template change while a canary runs; the validation written meanwhile names the FIRST canary
		sc := CanaryStrategy("1")
		sc.CDuration = 10
		x.Setup(3, "A", sc)
		x.Template("B")
		x.AwaitCanaryPods(8)
		x.Template("C")
		x.EDS()
		x.Ann("c-valid", "B")
		x.EDS()
		x.Rounds(3)
		x.Ann("c-valid", "C")
		x.D.Converge(60)
	}},
	{"canary-small-percentage", []string{"C05", "C15", "C04"}, func(x Scn) {
		// replicas as a percentage worth less than one pod (10% of 3): the canary still runs with one pod (rounded up) for its duration
		sc := CanaryStrategy("10%")
		sc.CDuration = 6
		x.Setup(3, "A", sc)
		x.Template("B")
		x.Rounds(4)
		x.D.Converge(40)
	}},
	{"rolling-update-partial-failure", []string{"C09", "C17", "C03"}, func(x Scn) {
		// one of two pod deletions of a sync is refused by the API (status write succeeds); the retry request arrives at once:
		// the reconcile-frequency gate still holds
		sc := BaseStrategy()
		sc.MaxUnavailable = "2"
		x.Setup(4, "A", sc)
		x.Template("B")
		x.Tick(1)
		x.do(Action{Op: "KRound"})
		x.EDS()
		x.EDS()
		x.D.C.PodFault = "first"
		x.ERS("B")
		x.D.C.PodFault = ""
		// the deleted pod is gone at once (no grace period); the retry arrives in the same instant
		x.do(Action{Op: "KRound"})
		x.ERS("B")
		x.ERS("B")
		x.D.Converge(40)
	}},
	{"affinity-canary-unbound-pods", []string{"C04", "C01", "C10"}, func(x Scn) {
		// node-affinity placement: a pod just created by one role is not bound yet (spec.nodeName empty) when the OTHER role syncs;
		// each role leaves the other's pending pod alone
		sc := CanaryStrategy("1")
		sc.CDuration = 20
		x.Setup(3, "A", sc)
		x.Template("B")
		x.EDS()
		x.EDS()
		x.ERS("B") // deletes the A pod of the canary node
		x.Tick(1)
		x.do(Action{Op: "KRound"})
		x.ERS("B") // creates the canary pod: pending, not bound
		x.ERS("A") // the active role must not touch it
		x.ERS("A")
		x.do(Action{Op: "NodeAdd", N: "n4", V: "A,B,C", W: "c;z=z1"})
		x.Tick(1)
		x.ERS("A") // creates the pod of the new node: pending
		x.ERS("B") // the canary role must not touch it
		x.ERS("B")
		x.Rounds(3)
		x.Ann("c-valid", "B")
		x.D.Converge(60)
	}},
	{"failed-canary-template-reapplied", []string{"C07", "C05", "C13"}, func(x Scn) {
		// a canary fails and is rolled back; the same template is applied again while the failed replica set still exists and is
		// older than the canary duration: it is rolled back again, not promoted
		cmd := func(v string) { x.do(Action{Op: "Cmd", Key: Key, V: v}) }
		sc := CanaryStrategy("1")
		sc.CDuration, sc.CNoRestarts = 3, 1
		x.Setup(3, "A", sc)
		x.Template("B")
		x.AwaitCanaryPods(3)
		cmd("canary-fail") // failed shortly before its duration ends
		x.Rounds(1)        // rollback: spec.template back to A, status.canary cleared; the failed replica set is kept for two more units
		x.Tick(1)
		x.Template("B") // by now the failed replica set is older than the canary duration
		x.EDS()
		x.EDS()
		x.Rounds(3)
		x.D.Converge(40)
	}},
	{"canary-restart-shortly-before-duration-ends", []string{"C05", "C06", "C14"}, func(x Scn) {
		// one restart of a canary pod shortly before the canary duration ends (fewer units before the end than noRestartsDuration,
		// and below the auto-pause threshold): the duration elapses first, the restart-free window still postpones the promotion
		sc := CanaryStrategy("1")
		sc.CDuration, sc.CNoRestarts = 5, 4
		x.Setup(3, "A", sc)
		for i, tmpl := range []string{"B", "C"} {
			x.Template(tmpl)
			x.AwaitCanaryPods(3)
			x.Rounds(1 + 2*i)
			x.RestartCanaryPods(1)
			x.Rounds(8) // the EDS is reconciled every unit: between the end of the duration and restart + noRestartsDuration it must wait
			x.D.Converge(40)
		}
	}},
	{"canary-autopause-with-paused-false-annotation", []string{"C08", "C05", "C14"}, func(x Scn) {
		// the annotation canary-paused=false is present (a pause that was withdrawn by overwriting it) and the canary pauses itself:
		// the replica set's own condition counts, the duration does not promote it
		sc := CanaryStrategy("1")
		sc.CDuration, sc.CNoRestarts = 6, 1
		x.Setup(3, "A", sc)
		x.Template("B")
		x.AwaitCanaryPods(4)
		x.Ann("c-paused", "false")
		x.RestartCanaryPods(3)
		x.Rounds(9)
		x.Ann("c-valid", "B")
		x.D.Converge(40)
	}},
	{"canary-validated-right-after-sync", []string{"C09", "C05"}, func(x Scn) {
		// the canary replica set has just created its pod when the canary is validated and the promoted replica set is requested
		// again within the same instant: the reconcile-frequency gate holds across the change of role
		sc := CanaryStrategy("1")
		sc.CMode, sc.CDuration, sc.CNoRestarts = "manual", 0, -1
		sc.MaxUnavailable = "2"
		x.Setup(4, "A", sc)
		x.Template("B")
		x.EDS()
		x.EDS()
		x.ERS("B")
		x.Tick(1)
		x.do(Action{Op: "KRound"})
		x.ERS("B") // creates the canary pod
		x.Ann("c-valid", "B")
		x.EDS()    // promotion
		x.ERS("B") // same instant, now in the active role
		x.ERS("B")
		x.D.Converge(40)
	}},
	{"canary-covers-all-nodes", []string{"C13", "C04", "C07", "C02"}, func(x Scn) {
		// as many canary replicas as nodes: the active replica set targets no node and reports 0/0/0/0 during the canary
		sc := CanaryStrategy("2")
		sc.CDuration = 6
		x.Setup(2, "A", sc)
		x.Template("B")
		x.AwaitCanaryPods(6)
		x.Rounds(3)
		x.RestartCanaryPods(6) // fails: the rollback needs the active replica set to still exist
		x.D.Converge(40)
	}},
	{"canary-pause-unpause-pause", []string{"C05", "C08", "C19", "C14"}, func(x Scn) {
		// a second pause after an unpause (the replica set then carries Canary-Paused=False): the duration elapses while paused
		cmd := func(v string) { x.do(Action{Op: "Cmd", Key: Key, V: v}) }
		sc := CanaryStrategy("1")
		sc.CDuration, sc.CNoRestarts = 12, 1
		x.Setup(3, "A", sc)
		x.Template("B")
		x.AwaitCanaryPods(4)
		cmd("canary-pause")
		x.Rounds(2)
		cmd("canary-unpause")
		x.Rounds(2)
		cmd("canary-pause")
		x.Rounds(10)
		cmd("canary-unpause")
		x.D.Converge(40)
	}},
	{"canary-validate-while-paused", []string{"C08", "C19", "C05"}, func(x Scn) {
		// validation without unpausing first: (1) paused by the replica set's own condition (auto-pause), (2) by annotation
		sc := CanaryStrategy("1")
		sc.CDuration = 10
		x.Setup(3, "A", sc)
		x.Template("B")
		x.AwaitCanaryPods(8)
		x.RestartCanaryPods(3) // above autoPause.maxRestarts, below autoFail.maxRestarts
		x.Rounds(2)
		x.Ann("c-valid", "B")
		x.D.Converge(40)
		x.Template("C")
		x.AwaitCanaryPods(8)
		x.Ann("c-paused", "true")
		x.Rounds(2)
		x.Ann("c-valid", "C")
		x.D.Converge(40)
	}},
	{"canary-node-removed", []string{"C15", "C04", "C02"}, func(x Scn) {
		x.Setup(4, "A", CanaryStrategy("2"))
		x.Template("B")
		x.Rounds(2)
		st := x.D.C.Project()
		if len(st.EDS[0].CNodes) > 0 {
			x.do(Action{Op: "NodeRemove", N: st.EDS[0].CNodes[0]})
		}
		x.Rounds(3)
		x.D.Converge(40)
	}},
	{"settings-and-overrides", []string{"C10", "C18", "C02", "C01"}, func(x Scn) {
		x.Setup(3, "A", BaseStrategy())
		x.do(Action{Op: "NodeGroup", N: "n1", V: "g1"})
		x.do(Action{Op: "NodeGroup", N: "n2", V: "g2"})
		x.do(Action{Op: "CreateSetting", Key: Key, V: "s1", W: "foo|g1|r1|", I: 3})
		x.do(Action{Op: "SettingReconcile", Key: "ns1/s1"})
		x.D.Converge(20)
		x.do(Action{Op: "NodeOverride", Key: Key, N: "n2", V: "r2"})
		x.D.Converge(20)
		x.do(Action{Op: "NodeOverride", Key: Key, N: "n2", V: "r3"})
		x.D.Converge(20)
		// different overrides for the two containers of one node
		x.do(Action{Op: "NodeOverride", Key: Key, N: "n3", V: "r3"})
		x.do(Action{Op: "NodeOverride", Key: Key, N: "n3", V: "r1", W: SideContainer})
		x.D.Converge(20)
		x.do(Action{Op: "NodeOverride", Key: Key, N: "n2", V: "r2", W: SideContainer})
		x.D.Converge(20)
		// override annotation and valid setting for the same container of the same node
		x.do(Action{Op: "NodeOverride", Key: Key, N: "n1", V: "r2"})
		x.D.Converge(20)
		x.do(Action{Op: "NodeOverride", Key: Key, N: "n1", V: "bad"})
		x.D.Converge(20)
		x.do(Action{Op: "NodeOverride", Key: Key, N: "n1", V: "none"})
		x.do(Action{Op: "DeleteSetting", Key: Key, V: "s1"})
		x.D.Converge(20)
	}},
	{"kubectl-canary-commands", []string{"C19", "C08", "C05", "C07", "C14"}, func(x Scn) {
		cmd := func(v string) { x.do(Action{Op: "Cmd", Key: Key, V: v}) }
		x.Setup(3, "A", CanaryStrategy("1"))
		// no canary yet: canary commands must refuse, rolling-update pause / freeze act
		for _, v := range []string{"canary-pause", "canary-unpause", "canary-validate", "canary-fail", "ru-unpause", "ru-pause", "ru-pause", "ru-unpause", "freeze", "freeze", "unfreeze", "unfreeze"} {
			cmd(v)
		}
		x.Template("B")
		x.AwaitCanaryPods(8)
		for _, v := range []string{"ru-pause", "freeze", "canary-pause", "canary-pause"} {
			cmd(v)
		}
		x.Rounds(2)
		// the canary is paused now (state Canary Paused, status.canary still set): rolling-update pause and freeze still have to refuse
		for _, v := range []string{"ru-pause", "ru-unpause", "freeze", "unfreeze"} {
			cmd(v)
		}
		cmd("canary-unpause")
		cmd("canary-unpause")
		x.Rounds(2)
		cmd("canary-validate")
		cmd("canary-validate")
		// a later template change must not be promoted by the old validation
		x.Template("C")
		x.Rounds(3)
		cmd("canary-validate")
		x.D.Converge(40)
		x.Template("A")
		x.AwaitCanaryPods(8)
		cmd("canary-fail")
		x.Rounds(1)
		cmd("canary-fail")
		x.D.Converge(40)
	}},
	{"kubectl-pause-then-fail", []string{"C19", "C07", "C08"}, func(x Scn) {
		cmd := func(v string) { x.do(Action{Op: "Cmd", Key: Key, V: v}) }
		sc := CanaryStrategy("2")
		sc.CMode, sc.CDuration, sc.CNoRestarts = "manual", 0, -1
		x.Setup(4, "A", sc)
		x.Template("B")
		x.AwaitCanaryPods(8)
		cmd("canary-pause")
		x.Rounds(2)
		cmd("canary-fail")
		x.D.Converge(40)
		x.Template("B")
		x.AwaitCanaryPods(8)
		cmd("canary-validate")
		x.D.Converge(40)
		// a second canary after a validated one: the old canary-valid annotation is still there, the command must act again
		x.Template("C")
		x.AwaitCanaryPods(8)
		cmd("canary-validate")
		cmd("canary-validate")
		x.D.Converge(40)
		x.Template("A")
		x.AwaitCanaryPods(8)
		cmd("canary-pause")
		cmd("canary-validate")
		x.D.Converge(40)
	}},
	{"two-eds-same-name-two-namespaces", []string{"C12", "C14", "C02", "C13"}, func(x Scn) {
		k2 := "ns2/foo"
		x.D.Strategy[Key] = BaseStrategy()
		x.D.Strategy[k2] = CanaryStrategy("1")
		for i := 1; i <= 3; i++ {
			x.do(Action{Op: "NodeAdd", N: "n" + strconv.Itoa(i), V: "A,B,C", W: "c;z=z1"})
		}
		x.do(Action{Op: "CreateEDS", Key: Key, T: "A"})
		x.do(Action{Op: "CreateEDS", Key: k2, T: "A"})
		x.D.Converge(15)
		x.do(Action{Op: "SetTemplate", Key: k2, T: "B"})
		x.Rounds(3)
		x.Template("C")
		x.Rounds(4)
		x.do(Action{Op: "ForeignPod", Key: k2, N: "n1", V: "dup"})
		x.do(Action{Op: "PodTemplateReconcile", Key: k2})
		x.do(Action{Op: "PodTemplateReconcile", Key: Key})
		x.D.Converge(60)
	}},
	{"two-eds-one-namespace", []string{"C12", "C14", "C02"}, func(x Scn) {
		k2 := "ns1/bar"
		x.D.Strategy[Key] = BaseStrategy()
		x.D.Strategy[k2] = BaseStrategy()
		for i := 1; i <= 3; i++ {
			x.do(Action{Op: "NodeAdd", N: "n" + strconv.Itoa(i), V: "A,B,C", W: "c;z=z1"})
		}
		x.do(Action{Op: "CreateEDS", Key: Key, T: "A"})
		x.do(Action{Op: "CreateEDS", Key: k2, T: "B"})
		x.D.Converge(15)
		x.do(Action{Op: "SetTemplate", Key: k2, T: "A"})
		x.Template("B")
		x.Rounds(3)
		x.do(Action{Op: "NodeRemove", N: "n2"})
		x.D.Converge(60)
	}},
	{"migration-undeclared", []string{"C12", "C01", "C02"}, func(x Scn) {
		// the migration is declared, runs, and is then withdrawn (annotation removed, template unchanged: same replica set) while
		// the old DaemonSet still exists and again puts a pod on a node: that pod is no longer the ExtendedDaemonSet's business
		x.D.Strategy[Key] = BaseStrategy()
		for i := 1; i <= 3; i++ {
			x.do(Action{Op: "NodeAdd", N: "n" + strconv.Itoa(i), V: "A,B,C", W: "c;z=z1"})
		}
		x.do(Action{Op: "CreateDaemonSet", Key: Key, V: "old"})
		for i := 1; i <= 3; i++ {
			x.do(Action{Op: "ForeignPod", Key: Key, N: "n" + strconv.Itoa(i), V: "ds", W: "old"})
		}
		x.do(Action{Op: "KRound"})
		x.do(Action{Op: "CreateEDS", Key: Key, T: "A"})
		x.Ann("old-ds", "old")
		x.D.Converge(30)
		x.Ann("old-ds", "")
		x.Rounds(2)
		x.do(Action{Op: "ForeignPod", Key: Key, N: "n1", V: "ds", W: "old"})
		x.do(Action{Op: "KRound"})
		x.Rounds(4)
	}},
	{"two-eds-one-namespace-canary", []string{"C12", "C04", "C02"}, func(x Scn) {
		// bar runs a canary (labelled canary pods) while foo's active replica set is inside its canary-label clean-up window
		// (just activated, then a rolling update): foo must not touch bar's canary pods
		k2 := "ns1/bar"
		x.D.Strategy[Key] = BaseStrategy()
		x.D.Strategy[k2] = CanaryStrategy("1")
		for i := 1; i <= 3; i++ {
			x.do(Action{Op: "NodeAdd", N: "n" + strconv.Itoa(i), V: "A,B,C", W: "c;z=z1"})
		}
		x.do(Action{Op: "CreateEDS", Key: k2, T: "A"})
		x.D.Converge(15)
		x.do(Action{Op: "SetTemplate", Key: k2, T: "B"})
		x.Rounds(3)
		x.do(Action{Op: "CreateEDS", Key: Key, T: "A"})
		x.Rounds(4)
		x.Template("C")
		x.Rounds(4)
		x.D.Converge(60)
	}},
	{"eds-carries-controller-annotations", []string{"C13", "C10", "C02"}, func(x Scn) {
		// the ExtendedDaemonSet's own metadata carries the controller's template-hash annotation with a stale value (a manifest derived
		// from an exported PodTemplate / replica set): replica sets, pods and the PodTemplate must still record the real hash
		x.D.Strategy[Key] = BaseStrategy()
		for i := 1; i <= 2; i++ {
			x.do(Action{Op: "NodeAdd", N: "n" + strconv.Itoa(i), V: "A,B,C", W: "c;z=z1"})
		}
		x.do(Action{Op: "CreateEDS", Key: Key, T: "A"})
		x.Ann("tmpl-hash", "0123456789abcdef0123456789abcdef")
		x.D.Converge(20)
		x.Template("B")
		x.D.Converge(30)
	}},
	{"template-names-another-namespace", []string{"C12", "C10", "C02"}, func(x Scn) {
		// ns1/foo rolls out a template whose metadata names namespace ns2, where a same-named ExtendedDaemonSet lives
		k2 := "ns2/foo"
		x.D.Strategy[Key] = BaseStrategy()
		x.D.Strategy[k2] = BaseStrategy()
		for i := 1; i <= 2; i++ {
			x.do(Action{Op: "NodeAdd", N: "n" + strconv.Itoa(i), V: "A,B,D", W: "c;z=z1"})
		}
		x.do(Action{Op: "CreateEDS", Key: Key, T: "A"})
		x.do(Action{Op: "CreateEDS", Key: k2, T: "A"})
		x.D.Converge(15)
		x.Template("D")
		x.D.Converge(40)
	}},
	{"setting-unusable-selector-no-node", []string{"C18"}, func(x Scn) {
		// a cluster that has (momentarily) no node: a setting with an unusable selector is still in error, a well-formed one valid
		x.do(Action{Op: "CreateSetting", Key: Key, V: "s1", W: "foo|!bad|r1|", I: 2})
		x.do(Action{Op: "CreateSetting", Key: Key, V: "s2", W: "foo|g1|r2|", I: 1})
		x.do(Action{Op: "SettingReconcile", Key: "ns1/s1"})
		x.do(Action{Op: "SettingReconcile", Key: "ns1/s2"})
		x.do(Action{Op: "Mark", V: "SettingsDone"})
		x.do(Action{Op: "NodeAdd", N: "n1", V: "A,B,C", W: "c;z=z1"})
		x.do(Action{Op: "NodeGroup", N: "n1", V: "g1"})
		x.do(Action{Op: "SettingReconcile", Key: "ns1/s1"})
		x.do(Action{Op: "SettingReconcile", Key: "ns1/s2"})
		x.do(Action{Op: "Mark", V: "SettingsDone"})
	}},
	{"two-eds-overlapping-labels", []string{"C12", "C13", "C02"}, func(x Scn) {
		// the second ExtendedDaemonSet carries, among its own metadata labels, the name label of the first one (e.g. a manifest
		// written from a copy of the first one's pod labels): legal input, "overlapping labels" of the statement of C12
		k2 := "ns1/bar"
		x.D.Strategy[Key] = BaseStrategy()
		x.D.Strategy[k2] = BaseStrategy()
		for i := 1; i <= 2; i++ {
			x.do(Action{Op: "NodeAdd", N: "n" + strconv.Itoa(i), V: "A,B,C", W: "c;z=z1"})
		}
		x.do(Action{Op: "CreateEDS", Key: Key, T: "A"})
		x.do(Action{Op: "CreateEDS", Key: k2, T: "B", W: "name=foo"})
		x.D.Converge(15)
		x.Template("C")
		x.D.Converge(40)
	}},
	{"migration-old-daemonset", []string{"C03", "C12", "C02", "C01"}, func(x Scn) {
		sc := BaseStrategy()
		x.D.Strategy[Key] = sc
		for i := 1; i <= 3; i++ {
			x.do(Action{Op: "NodeAdd", N: "n" + strconv.Itoa(i), V: "A,B,C", W: "c;z=z1"})
		}
		x.do(Action{Op: "CreateDaemonSet", Key: Key, V: "old"})
		for i := 1; i <= 3; i++ {
			x.do(Action{Op: "ForeignPod", Key: Key, N: "n" + strconv.Itoa(i), V: "ds", W: "old"})
		}
		// a second DaemonSet whose pods carry labels matching the old DaemonSet's selector: not part of the migration
		x.do(Action{Op: "ForeignPod", Key: Key, N: "n1", V: "ds2", W: "old"})
		x.do(Action{Op: "ForeignPod", Key: Key, N: "n2", V: "ds2", W: "old"})
		x.do(Action{Op: "KRound"})
		x.do(Action{Op: "CreateEDS", Key: Key, T: "A"})
		x.Ann("old-ds", "old")
		x.D.Converge(30)
	}},
}

// WalkVariants are the configurations of the seeded random walks.
func WalkVariants(i int) (WalkConfig, StrategyConfig, int) {
	nodes := []string{"n1", "n2", "n3", "n4"}
	wc := WalkConfig{Nodes: nodes, Templates: []string{"A", "B"}, Key: Key}
	sc := BaseStrategy()
	n := 3
	switch i % 8 {
	case 6:
		// the user edits the canary strategy while it runs; single API calls of the replica-set syncs are refused
		wc.Canary, wc.Strategy, wc.APIFaults, wc.Toggles, wc.Faulty, wc.Meta = true, true, true, true, true, true
		sc = CanaryStrategy("2")
		n = 4
	case 7:
		// settings, node groups and override annotations change while a rolling update runs; refused API calls
		wc.Settings, wc.APIFaults, wc.Faulty, wc.Churn = true, true, true, true
		sc.MaxUnavailable = "2"
		n = 4
	case 0:
		wc.Faulty = true
	case 1:
		wc.Faulty, wc.Toggles = true, true
		sc.MaxUnavailable = "2"
		n = 4
	case 2:
		wc.Canary, wc.Toggles = true, true
		sc = CanaryStrategy("1")
		n = 3
	case 3:
		wc.Canary, wc.Faulty, wc.Churn = true, true, true
		sc = CanaryStrategy("2")
		wc.Templates = []string{"A", "B", "C"}
		n = 4
	case 4:
		wc.Churn, wc.Faulty, wc.Foreign = true, true, true
		sc.MaxUnavailable = "50%"
		n = 4
	case 5:
		wc.Canary, wc.Toggles, wc.Faulty = true, true, true
		sc = CanaryStrategy("1")
		sc.CMode, sc.CDuration, sc.CNoRestarts = "manual", 0, -1
	}
	wc.Commands = i%2 == 0
	return wc, sc, n
}

// RunWalk runs one seeded random walk followed by a convergence tail.
func RunWalk(d *Driver, seed int64, i, steps int) {
	r := rand.New(rand.NewSource(seed*1000003 + int64(i)))
	wc, sc, n := WalkVariants(i)
	d.Reset(Options{AffinityMode: i%4 == 3}, fmt.Sprintf("walk-%d-%d", seed, i))
	x := Scn{D: d, R: r}
	x.Setup(n, "A", sc)
	wc.Steps = steps
	d.Walk(r, wc)
	// end of the history: the user stops interfering, missing nodes come back untainted
	x.Unpause()
	d.Converge(60)
}

// TraceArgs selects what `edsim traces` writes.
func runTraces(a CLIArgs) int {
	f, err := os.Create(a.Out)
	if err != nil {
		fmt.Fprintln(os.Stderr, err)
		return 2
	}
	defer f.Close()
	d := NewDriver(Options{}, f)
	props := strings.Split(a.In, ",")
	names := []string{}
	for _, sc := range Corpus {
		// every property's formulas are evaluated on the whole corpus: a scenario written for one property regularly turns out
		// to be the one that exposes a change to another (the Props tags are documentation)
		_ = props
		d.Reset(Options{AffinityMode: strings.HasPrefix(sc.Name, "affinity-")}, sc.Name)
		sc.Run(Scn{D: d, R: rand.New(rand.NewSource(a.Seed))})
		names = append(names, sc.Name)
	}
	for i := 0; i < a.N; i++ {
		RunWalk(d, a.Seed, i, a.Steps)
	}
	d.Flush()
	sort.Strings(names)
	fmt.Printf("{\"scenarios\":%d,\"walks\":%d,\"events\":%d,\"applied\":%d,\"skipped\":%d}\n", len(names), a.N, d.NEvents, d.Applied, d.Skipped)
	return 0
}

func init() {
	Subcommands["traces"] = runTraces
}
