package sim

import (
	"bufio"
	"encoding/json"
	"fmt"
	edsv1 "github.com/DataDog/extendeddaemonset/api/v1alpha1"
	"io"
	"math/rand"
	"sort"
	"strconv"
	"strings"

	corev1 "k8s.io/api/core/v1"
)

// Action is one label of the shared action vocabulary (DESIGN appendix B).
type Action struct {
	Op  string `json:"op"`
	Key string `json:"key,omitempty"` // EDS "ns/name"
	T   string `json:"t,omitempty"`   // template identity
	N   string `json:"n,omitempty"`   // node
	I   int    `json:"i,omitempty"`   // index of the pod on the node (1 = oldest) / replica-set id
	V   string `json:"v,omitempty"`   // value
	W   string `json:"w,omitempty"`   // second value
}

func (a Action) String() string {
	b, _ := json.Marshal(a)
	return string(b)
}

func splitKey(k string) (string, string) {
	i := strings.Index(k, "/")
	if i < 0 {
		return "ns1", k
	}
	return k[:i], k[i+1:]
}

// Driver applies actions to a cluster and records the trace.
type Driver struct {
	C        *Cluster
	Strategy map[string]StrategyConfig // per EDS key, for CreateEDS / SetStrategy
	Skipped  int
	Applied  int
	Out      *bufio.Writer
	NEvents  int
	Keep     bool                                              // keep events in memory (C.Events)
	Cmd      func(c *Cluster, key, name string) (Event, error) // kubectl-eds shim (build tag verif)
}

// DefaultCmd is the kubectl-eds shim installed by the verif build.
var DefaultCmd func(c *Cluster, key, name string) (Event, error)

// NewDriver builds a cluster with the standard templates and a driver.
func NewDriver(opts Options, w io.Writer) *Driver {
	c := NewCluster(opts)
	for _, id := range []string{"A", "B", "C", "D"} {
		c.AddTemplate(id, StdTemplate(id))
	}
	d := &Driver{C: c, Strategy: map[string]StrategyConfig{}, Cmd: DefaultCmd}
	if w != nil {
		d.Out = bufio.NewWriterSize(w, 1<<20)
	}
	return d
}

// Emit appends the event (with the projected state) to the trace.
func (d *Driver) Emit(ev Event) Event {
	ev.State = d.C.Project()
	if ev.Args == nil {
		ev.Args = map[string]string{"_": ""}
	}
	if ev.Writes == nil {
		ev.Writes = []Write{}
	}
	if d.Out != nil {
		b, err := json.Marshal(ev)
		if err != nil {
			panic(err)
		}
		d.Out.Write(b)
		d.Out.WriteByte('\n')
	}
	if d.Keep {
		d.C.Events = append(d.C.Events, ev)
	}
	d.NEvents++
	return ev
}

// Reset starts a new trace on a fresh cluster.
func (d *Driver) Reset(opts Options, label string) {
	c := NewCluster(opts)
	for _, id := range []string{"A", "B", "C", "D"} {
		c.AddTemplate(id, StdTemplate(id))
	}
	d.C = c
	d.Strategy = map[string]StrategyConfig{}
	d.Emit(Event{Ev: "reset", Args: map[string]string{"_": "", "label": label}})
}

// Flush flushes the trace writer.
func (d *Driver) Flush() {
	if d.Out != nil {
		d.Out.Flush()
	}
}

func (d *Driver) pod(n string, i int) *corev1.Pod {
	if n == "#" {
		return d.C.PodByID(i)
	}
	ps := d.C.PodsOnNode(n)
	if i < 1 || i > len(ps) {
		return nil
	}
	return ps[i-1]
}

// podOf is the i-th pod (creation order) on node n among the pods of the ExtendedDaemonSet key (namespace + name label).
func (d *Driver) podOf(key, n string, i int) *corev1.Pod {
	ns, name := splitKey(key)
	k := 0
	for _, p := range d.C.PodsOnNode(n) {
		if p.Namespace == ns && p.Labels[edsv1.ExtendedDaemonSetNameLabelKey] == name {
			k++
			if k == i {
				return p
			}
		}
	}
	return nil
}

func csv(s string) []string {
	if s == "" || s == "-" {
		return nil
	}
	return strings.Split(s, ",")
}

// Apply executes one action; ok=false means its precondition did not hold in the real store (skipped).
func (d *Driver) Apply(a Action) (Event, bool) {
	c := d.C
	ns, name := splitKey(a.Key)
	env := func(err error) (Event, bool) {
		if err != nil {
			d.Skipped++
			return Event{}, false
		}
		d.Applied++
		args := map[string]string{"_": "", "t": a.T, "n": a.N, "v": a.V, "w": a.W, "i": strconv.Itoa(a.I)}
		return d.Emit(Event{Ev: a.Op, Key: a.Key, Args: args}), true
	}
	switch a.Op {
	case "EDSReconcile":
		d.Applied++
		return d.Emit(c.Reconcile("eds", ns, name)), true
	case "PodTemplateReconcile":
		d.Applied++
		return d.Emit(c.Reconcile("podtemplate", ns, name)), true
	case "SettingReconcile":
		d.Applied++
		return d.Emit(c.Reconcile("setting", ns, name)), true
	case "ERSReconcileFaulty":
		// one sync whose pod create / delete calls are refused by the API according to V (first | alt | all)
		c.mu.Lock()
		c.PodFault, c.podFaultCnt = a.V, 0
		c.mu.Unlock()
		b := a
		b.Op = "ERSReconcile"
		ev, ok := d.Apply(b)
		c.mu.Lock()
		c.PodFault = ""
		c.mu.Unlock()
		return ev, ok
	case "ERSReconcile":
		var rsName string
		if a.I > 0 {
			if r := c.RSByID(a.I); r != nil {
				ns, rsName = r.Namespace, r.Name
			}
		} else if r := c.RSByTemplate(ns, name, a.T); r != nil {
			rsName = r.Name
		}
		if rsName == "" {
			d.Skipped++
			return Event{}, false
		}
		d.Applied++
		return d.Emit(c.Reconcile("ers", ns, rsName)), true
	case "Tick":
		n, _ := strconv.Atoi(a.V)
		if n <= 0 {
			n = 1
		}
		c.Tick(n)
		return env(nil)
	case "CreateEDS":
		if err := c.CreateEDS(ns, name, a.T, d.Strategy[a.Key]); err != nil {
			return env(err)
		}
		if a.W != "" {
			// W = "k=v,k=v": extra metadata labels of the ExtendedDaemonSet ("name" stands for the controller's own name label key)
			return env(c.MutateEDS(ns, name, func(e *edsv1.ExtendedDaemonSet) {
				for _, kv := range strings.Split(a.W, ",") {
					p := strings.SplitN(kv, "=", 2)
					if len(p) != 2 {
						continue
					}
					if p[0] == "name" {
						p[0] = edsv1.ExtendedDaemonSetNameLabelKey
					}
					e.Labels[p[0]] = p[1]
				}
			}))
		}
		return env(nil)
	case "DeleteEDS":
		e, err := c.GetEDS(ns, name)
		if err != nil {
			return env(err)
		}
		return env(c.base.Delete(bg, e))
	case "SetTemplate":
		e, err := c.GetEDS(ns, name)
		if err != nil || c.identOfTemplate(&e.Spec.Template) == a.T {
			return env(fmt.Errorf("no-op"))
		}
		return env(c.SetTemplate(ns, name, a.T))
	case "SetStrategy":
		return env(c.SetStrategy(ns, name, d.Strategy[a.Key]))
	case "SetCanaryReplicas":
		sc := d.Strategy[a.Key]
		if !sc.Canary || sc.CReplicas == a.V {
			return env(fmt.Errorf("no-op"))
		}
		sc.CReplicas = a.V
		d.Strategy[a.Key] = sc
		return env(c.SetStrategy(ns, name, sc))
	case "SetAnnotation":
		v := a.W
		if a.V == "c-valid" && a.W != "" {
			r := c.RSByTemplate(ns, name, a.W)
			if r == nil {
				return env(fmt.Errorf("no rs"))
			}
			v = r.Name
		}
		return env(c.SetAnnotation(ns, name, a.V, v))
	case "Cmd":
		if d.Cmd == nil {
			d.Skipped++
			return Event{}, false
		}
		ev, err := d.Cmd(c, a.Key, a.V)
		if err != nil {
			d.Skipped++
			return Event{}, false
		}
		d.Applied++
		ev.Ev, ev.Key = "Cmd", a.Key
		if ev.Args == nil {
			ev.Args = map[string]string{"_": ""}
		}
		ev.Args["v"] = a.V
		return d.Emit(ev), true
	case "NodeAdd":
		return env(c.NodeAdd(a.N, csv(a.V), strings.Contains(a.W, "c"), zoneOf(a.W)))
	case "NodeRemove":
		return env(c.NodeRemove(a.N))
	case "NodeSetFits":
		return env(c.NodeSetFits(a.N, csv(a.V)))
	case "NodeTaint":
		return env(c.NodeTaint(a.N, a.V == "on"))
	case "NodeCSel":
		v := ""
		if a.V == "on" {
			v = "yes"
		}
		return env(c.NodeLabel(a.N, CanaryNodeLabel, v))
	case "NodeZone":
		return env(c.NodeLabel(a.N, ZoneLabel, a.V))
	case "NodeGroup":
		return env(c.NodeLabel(a.N, GroupLabel, a.V))
	case "NodeOverride":
		return env(c.NodeOverride(a.N, ns, name, a.V, a.W))
	case "KRound":
		c.KRound()
		return env(nil)
	case "GCOwned":
		c.GCOwned()
		return env(nil)
	case "ForeignPod":
		return env(c.ForeignPod(a.N, a.V, ns, name, a.W))
	case "CreateDaemonSet":
		return env(c.CreateDaemonSet(ns, a.V))
	case "CreateSetting":
		// V = name, W = "ref|sel|res|expr"
		parts := strings.Split(a.W, "|")
		for len(parts) < 4 {
			parts = append(parts, "")
		}
		return env(c.CreateSetting(ns, a.V, parts[0], parts[1], parts[2], parts[3] == "expr", c.settingInstant(a.I)))
	case "DeleteSetting":
		return env(c.DeleteSetting(ns, a.V))
	case "Mark":
		// a marker event (e.g. SettingsDone): the state is projected, nothing is done
		d.Applied++
		return d.Emit(Event{Ev: a.V, Key: a.Key, Args: map[string]string{"_": ""}}), true
	case "RestartController":
		c.RestartActor(a.V)
		return env(nil)
	}
	// pod-addressed kubelet actions
	p := d.pod(a.N, a.I)
	if a.Key != "" && a.N != "#" {
		p = d.podOf(a.Key, a.N, a.I)
	}
	if p == nil {
		d.Skipped++
		return Event{}, false
	}
	switch a.Op {
	case "Bind":
		if p.Spec.NodeName != "" {
			return env(fmt.Errorf("bound"))
		}
		return env(c.Bind(p))
	case "KStart":
		return env(c.KStart(p))
	case "KReady":
		if p.DeletionTimestamp != nil || p.Status.Phase == corev1.PodFailed || p.Status.Phase == corev1.PodUnknown || podReady(p) {
			return env(fmt.Errorf("pre"))
		}
		return env(c.KReady(p))
	case "KUnready":
		if !podReady(p) {
			return env(fmt.Errorf("pre"))
		}
		return env(c.KUnready(p))
	case "KReadyUnknown":
		// the node stopped reporting: the node lifecycle controller sets Ready=Unknown on its pods
		if p.DeletionTimestamp != nil || p.Status.Phase != corev1.PodRunning {
			return env(fmt.Errorf("pre"))
		}
		setPodCond(p, corev1.PodReady, corev1.ConditionUnknown, "NodeStatusUnknown")
		mainStatus(p).Ready = false
		return env(c.rawUpdate(p))
	case "KRestart":
		if p.DeletionTimestamp != nil {
			return env(fmt.Errorf("pre"))
		}
		r := a.V
		if r == "" {
			r = "Error"
		}
		return env(c.KRestart(p, r))
	case "KWaiting":
		if p.DeletionTimestamp != nil {
			return env(fmt.Errorf("pre"))
		}
		return env(c.KWaiting(p, a.V))
	case "KFail":
		if p.DeletionTimestamp != nil || p.Status.Phase == corev1.PodFailed {
			return env(fmt.Errorf("pre"))
		}
		return env(c.KFail(p))
	case "KLost":
		if p.Status.Phase == corev1.PodUnknown {
			return env(fmt.Errorf("pre"))
		}
		return env(c.KLost(p))
	case "KFinish":
		return env(c.KFinish(p))
	case "KStuck":
		return env(c.KStuck(p))
	}
	d.Skipped++
	return Event{}, false
}

func zoneOf(w string) string {
	for _, p := range strings.Split(w, ";") {
		if strings.HasPrefix(p, "z=") {
			return p[2:]
		}
	}
	return ""
}

// ReconcileAll runs every reconciler once on every object it owns (one fair round, without tick or kubelet).
// It returns the number of pod/RS writes issued and the number of reconciles that returned an error.
func (d *Driver) ReconcileAll() (int, int) {
	writes, errs := 0, 0
	count := func(ev Event, ok bool) {
		if ok {
			writes += countObjWrites(ev)
			if ev.Res.Err {
				errs++
			}
		}
	}
	st := d.C.Project()
	// all four reconcilers take part in a fair round
	for _, x := range st.Settings {
		count(d.Apply(Action{Op: "SettingReconcile", Key: x.NS + "/" + x.Name}))
	}
	for _, e := range st.EDS {
		count(d.Apply(Action{Op: "PodTemplateReconcile", Key: e.Key}))
		count(d.Apply(Action{Op: "EDSReconcile", Key: e.Key}))
	}
	st = d.C.Project()
	for _, r := range st.RS {
		count(d.Apply(Action{Op: "ERSReconcile", I: r.ID}))
	}
	for _, e := range st.EDS {
		count(d.Apply(Action{Op: "EDSReconcile", Key: e.Key}))
	}
	return writes, errs
}

func countObjWrites(ev Event) int {
	n := 0
	for _, w := range ev.Writes {
		if w.Verb == "create" || w.Verb == "delete" || w.Kind == "Pod" || (w.Kind == "EDS" && w.Verb == "update") {
			n++
		}
	}
	return n
}

// Round is one fair round: tick, kubelet progress, every reconciler once.
func (d *Driver) Round() (int, int) {
	d.Apply(Action{Op: "Tick", V: "1"})
	d.Apply(Action{Op: "KRound"})
	return d.ReconcileAll()
}

// Converge appends a convergence tail: fair rounds until one issues no object write (twice in a row), at most max rounds.
// It emits a "tailEnd" event saying how it ended: quiet (fixpoint reached), rounds, errs (reconciles of the last
// round that returned an error).
func (d *Driver) Converge(max int) (rounds int, quiet bool) {
	d.Emit(Event{Ev: "tailStart", Args: map[string]string{"_": ""}})
	quietRuns, errs := 0, 0
	for rounds = 0; rounds < max; rounds++ {
		var w int
		w, errs = d.Round()
		if w == 0 {
			quietRuns++
			if quietRuns >= 2 {
				quiet = true
				break
			}
		} else {
			quietRuns = 0
		}
	}
	d.Emit(Event{Ev: "tailEnd", Args: map[string]string{"_": "", "quiet": strconv.FormatBool(quiet), "rounds": strconv.Itoa(rounds), "errs": strconv.Itoa(errs)}})
	return rounds, quiet
}

// ---------- random walk ----------

// WalkConfig parametrises the seeded random walk.
type WalkConfig struct {
	Nodes     []string
	Templates []string
	Key       string
	Steps     int
	Canary    bool
	Churn     bool // node churn
	Faulty    bool // pod failures / restarts
	Toggles   bool // pause/freeze/canary annotations
	Foreign   bool
	Narrow    bool // allow per-template fitness to differ
	Commands  bool // kubectl-eds commands
	Strategy  bool // the user edits the strategy (canary replicas as number / percentage) while things run
	APIFaults bool // single replica-set syncs whose first (or every second) pod create / delete call is refused by the API
	Settings  bool // ExtendedDaemonsetSettings created / reconciled / deleted, node groups relabelled, node override annotations
	Meta      bool // the ExtendedDaemonSet's own metadata carries the controller's label / annotation keys with stale values
}

type weighted struct {
	w int
	f func() Action
}

// Walk performs a seeded random walk over the action vocabulary, biased to keep rollouts and canaries in flight.
func (d *Driver) Walk(r *rand.Rand, wc WalkConfig) {
	pick := func(xs []string) string { return xs[r.Intn(len(xs))] }
	key := wc.Key
	ns, name := splitKey(key)
	acts := []weighted{
		{30, func() Action { return Action{Op: "EDSReconcile", Key: key} }},
		{50, func() Action { return Action{Op: "ERSReconcile", Key: key, T: pick(wc.Templates)} }},
		{25, func() Action { return Action{Op: "Tick", V: strconv.Itoa(1 + r.Intn(2))} }},
		{25, func() Action { return Action{Op: "KRound"} }},
		{12, func() Action { return Action{Op: "KReady", N: pick(wc.Nodes), I: 1 + r.Intn(2)} }},
		{10, func() Action { return Action{Op: "KFinish", N: pick(wc.Nodes), I: 1 + r.Intn(2)} }},
		{6, func() Action { return Action{Op: "SetTemplate", Key: key, T: pick(wc.Templates)} }},
		{3, func() Action { return Action{Op: "PodTemplateReconcile", Key: key} }},
	}
	if wc.Faulty {
		acts = append(acts,
			weighted{8, func() Action { return Action{Op: "KUnready", N: pick(wc.Nodes), I: 1 + r.Intn(2)} }},
			weighted{8, func() Action { return Action{Op: "KRestart", N: pick(wc.Nodes), I: 1 + r.Intn(2), V: "Error"} }},
			weighted{3, func() Action {
				return Action{Op: "KWaiting", N: pick(wc.Nodes), I: 1 + r.Intn(2), V: pick([]string{"ErrImagePull", "ContainerCreating", "CrashLoopBackOff"})}
			}},
			weighted{3, func() Action { return Action{Op: "KFail", N: pick(wc.Nodes), I: 1 + r.Intn(2)} }},
			weighted{2, func() Action { return Action{Op: "KLost", N: pick(wc.Nodes), I: 1 + r.Intn(2)} }},
			weighted{2, func() Action { return Action{Op: "KStuck", N: pick(wc.Nodes), I: 1 + r.Intn(2)} }},
		)
	}
	if wc.Churn {
		acts = append(acts,
			weighted{3, func() Action { return Action{Op: "NodeRemove", N: pick(wc.Nodes)} }},
			weighted{4, func() Action {
				return Action{Op: "NodeAdd", N: pick(wc.Nodes), V: strings.Join(wc.Templates, ","), W: pick([]string{"c;z=z1", "c;z=z2", "z=z1"})}
			}},
			weighted{3, func() Action { return Action{Op: "NodeTaint", N: pick(wc.Nodes), V: pick([]string{"on", "off"})} }},
			weighted{2, func() Action { return Action{Op: "NodeCSel", N: pick(wc.Nodes), V: pick([]string{"on", "off"})} }},
		)
		if wc.Narrow {
			acts = append(acts, weighted{3, func() Action {
				var fits []string
				for _, t := range wc.Templates {
					if r.Intn(3) > 0 {
						fits = append(fits, t)
					}
				}
				return Action{Op: "NodeSetFits", N: pick(wc.Nodes), V: strings.Join(fits, ",")}
			}})
		}
	}
	if wc.Toggles {
		acts = append(acts,
			weighted{3, func() Action {
				return Action{Op: "SetAnnotation", Key: key, V: "ru-paused", W: pick([]string{"true", "false", ""})}
			}},
			weighted{2, func() Action {
				return Action{Op: "SetAnnotation", Key: key, V: "frozen", W: pick([]string{"true", "false", ""})}
			}},
		)
		if wc.Canary {
			acts = append(acts,
				weighted{3, func() Action {
					return Action{Op: "SetAnnotation", Key: key, V: "c-paused", W: pick([]string{"true", "false", ""})}
				}},
				weighted{2, func() Action {
					return Action{Op: "SetAnnotation", Key: key, V: "c-unpaused", W: pick([]string{"true", ""})}
				}},
				weighted{3, func() Action { return Action{Op: "SetAnnotation", Key: key, V: "c-valid", W: pick(wc.Templates)} }},
			)
		}
	}
	if wc.Commands {
		acts = append(acts, weighted{5, func() Action {
			return Action{Op: "Cmd", Key: key, V: pick([]string{"canary-pause", "canary-unpause", "canary-validate", "canary-fail", "ru-pause", "ru-unpause", "freeze", "unfreeze"})}
		}})
	}
	if wc.Strategy && wc.Canary {
		acts = append(acts, weighted{4, func() Action {
			return Action{Op: "SetCanaryReplicas", Key: key, V: pick([]string{"1", "2", "3", "10%", "50%", "100%"})}
		}})
	}
	if wc.APIFaults {
		acts = append(acts, weighted{6, func() Action {
			return Action{Op: "ERSReconcileFaulty", Key: key, T: pick(wc.Templates), V: pick([]string{"first", "alt", "all"})}
		}})
	}
	if wc.Faulty {
		acts = append(acts, weighted{3, func() Action { return Action{Op: "KReadyUnknown", N: pick(wc.Nodes), I: 1 + r.Intn(2)} }})
	}
	if wc.Settings {
		sets := []string{"s1", "s2", "s3"}
		acts = append(acts,
			weighted{4, func() Action {
				s := pick(sets)
				return Action{Op: "CreateSetting", Key: key, V: s, W: pick([]string{name, name, ""}) + "|" + pick([]string{"g1", "g2", "g1+g2", "!bad"}) + "|r" + s[1:] + "|", I: r.Intn(2)}
			}},
			weighted{2, func() Action { return Action{Op: "DeleteSetting", Key: key, V: pick(sets)} }},
			weighted{8, func() Action { return Action{Op: "SettingReconcile", Key: ns + "/" + pick(sets)} }},
			weighted{3, func() Action { return Action{Op: "NodeGroup", N: pick(wc.Nodes), V: pick([]string{"g1", "g2", ""})} }},
			weighted{2, func() Action {
				return Action{Op: "NodeOverride", Key: key, N: pick(wc.Nodes), V: pick([]string{"none", "r1", "r2", "bad"}), W: pick([]string{"", SideContainer})}
			}},
		)
	}
	if wc.Meta {
		acts = append(acts,
			weighted{2, func() Action {
				return Action{Op: "SetAnnotation", Key: key, V: "tmpl-hash", W: pick([]string{"0123456789abcdef0123456789abcdef", ""})}
			}},
		)
	}
	if wc.Foreign {
		acts = append(acts,
			weighted{3, func() Action {
				return Action{Op: "ForeignPod", Key: key, N: pick(wc.Nodes), V: pick([]string{"dup", "unrelated", "otherns"})}
			}},
		)
	}
	_ = ns
	_ = name
	total := 0
	for _, a := range acts {
		total += a.w
	}
	for i := 0; i < wc.Steps; i++ {
		x := r.Intn(total)
		for _, a := range acts {
			if x < a.w {
				d.Apply(a.f())
				break
			}
			x -= a.w
		}
	}
}

// SortedKeys returns the keys of m, sorted.
func SortedKeys(m map[string]StrategyConfig) []string {
	var ks []string
	for k := range m {
		ks = append(ks, k)
	}
	sort.Strings(ks)
	return ks
}
