//go:build !verif

package sim

import (
	"time"

	"sigs.k8s.io/controller-runtime/pkg/reconcile"
)

// HooksEnabled says whether the harness was built with the verif hooks of /repo.
const HooksEnabled = false

func (c *Cluster) installBackOffClock(r reconcile.Reconciler) {}

func (c *Cluster) advanceBackOffClock(d time.Duration) {}

func fnMetrics(v *FnVector) map[string]interface{} {
	return map[string]interface{}{"panic": false, "values": map[string]int{}, "labelKeys": []string{}, "labelValues": []string{}, "nohooks": true}
}
