//go:build !verif

package sim

import (
	"time"

	"sigs.k8s.io/controller-runtime/pkg/reconcile"
)

// HooksEnabled says whether the harness was built with the verif hooks of /repo.
const HooksEnabled = false

func (c *Cluster) installBackOffClock(r reconcile.Reconciler) {}

func (c *Cluster) advanceBackOffClock(d time.Duration) {}
