// Package sim is the conformance harness: a simulated cluster (controller-runtime's in-memory API
// server), the real reconcilers of DataDog/extendeddaemonset, a scripted kubelet / scheduler / user,
// virtual time, the projection of the store to the abstract state of spec/Cluster.tla and the event
// log that spec/Trace.tla judges.
package sim

// ---- abstract state (projection alpha); field names are the ones spec/*.tla use ----

// NodeS is the projection of a Node.
type NodeS struct {
	Name     string   `json:"name"`
	Fits     []string `json:"fits"`     // templates whose selector/tolerations accept the node (harness encoding)
	CSel     bool     `json:"csel"`     // matches the canary nodeSelector encoding (label canary=yes)
	Zone     string   `json:"zone"`     // value of the anti-affinity label
	Taint    bool     `json:"taint"`    // carries the untolerated NoSchedule taint
	Override string   `json:"override"` // resource override annotation class for container main: none|r1|r2|r3|bad
	Override2 string  `json:"override2"` // same for container side
	SLabel   string   `json:"slabel"`   // value of label "grp" used by ExtendedDaemonsetSettings
}

// PodS is the projection of a Pod.
type PodS struct {
	ID        int    `json:"id"`
	NS        string `json:"ns"`
	Name      string `json:"name"`
	Node      string `json:"node"` // "" when it cannot be determined
	Pin       string `json:"pin"`  // nodeName | affinity | none
	PinAll    bool   `json:"pinAll"`
	EDS       string `json:"eds"`    // value of the EDS name label ("" if none)
	RSL       int    `json:"rsl"`    // id of the RS named by the RS-name label in the pod's namespace, 0 if none
	Owner     string `json:"owner"`  // rs | ds | none | other
	OwnerRS   int    `json:"ownerRS"`
	OwnerName string `json:"ownerName"`
	Hash      string `json:"hash"` // template identity of the hash annotation: A,B,.. | none | other
	Tol       bool   `json:"tol"`  // carries all standard DaemonSet tolerations
	Res       string `json:"res"`  // resource class of container "main": tmpl | r1 | r2 | r3 | other
	Res2      string `json:"res2"` // resource class of container "side"
	NodeHash  string `json:"nodeHash"` // ok (agrees with the node's override annotations now) | stale
	SetLabel  string `json:"setLabel"`
	Phase     string `json:"phase"`
	Ready     bool   `json:"ready"`
	Term      bool   `json:"term"`
	Sched     bool   `json:"sched"`
	Stuck     bool   `json:"stuck"`
	Restarts  int    `json:"restarts"`
	RestartAge int   `json:"restartAge"` // units since the latest restart, -1 if none
	Waiting   string `json:"waiting"`    // none | cannotStart | creating | other
	StartAge  int    `json:"startAge"`   // units since status.startTime, -1 if unset
	CLabel    bool   `json:"clabel"`
	Age       int    `json:"age"`
	Born      int    `json:"born"` // creation instant in virtual seconds since the start of the harness process
	Foreign   bool   `json:"foreign"` // created by the environment, not by a reconciler
}

// CondS is the projection of a status condition.
type CondS struct {
	Present bool   `json:"present"`
	True    bool   `json:"true"`
	LTT     int    `json:"ltt"` // age in units of lastTransitionTime (-1 if absent)
	LUT     int    `json:"lut"` // age in units of lastUpdateTime (-1 if absent)
	Reason  string `json:"reason"`
}

// RSS is the projection of an ExtendedDaemonSetReplicaSet.
type RSS struct {
	ID        int    `json:"id"`
	NS        string `json:"ns"`
	Name      string `json:"name"`
	EDS       string `json:"eds"`   // value of the EDS name label
	Owner     string `json:"owner"` // "ns/name" of the controller owner EDS, "" if none
	Tmpl      string `json:"tmpl"`  // identity of spec.template
	HashAnn   string `json:"hashAnn"`
	Gen       string `json:"gen"`
	Age       int    `json:"age"`
	Deleting  bool   `json:"deleting"`
	Status    string `json:"status"`
	Desired   int    `json:"desired"`
	Current   int    `json:"current"`
	Ready     int    `json:"ready"`
	Available int    `json:"available"`
	Ignored   int    `json:"ignored"`
	Conds     map[string]CondS `json:"conds"`
}

// IntPct is the projection of an IntOrString: an absolute number or a percentage.
type IntPct struct {
	V   int  `json:"v"`
	Pct bool `json:"pct"`
	Set bool `json:"set"`
	Bad bool `json:"bad"`
}

// StratS is the projection of spec.strategy (only what the formulas need).
type StratS struct {
	MaxUnavailable   IntPct `json:"maxUnavailable"`
	MaxSchedFailure  IntPct `json:"maxSchedFailure"`
	MaxParallel      int    `json:"maxParallel"`
	SlowStartInterval int   `json:"slowStartInterval"` // units
	SlowStartIncrease IntPct `json:"slowStartIncrease"`
	Frequency        int    `json:"frequency"` // units
	Canary           bool   `json:"canary"`
	CReplicas        IntPct `json:"cReplicas"`
	CDuration        int    `json:"cDuration"` // units, -1 unset
	CNoRestarts      int    `json:"cNoRestarts"`
	CMode            string `json:"cMode"`
	CAntiAffinity    bool   `json:"cAntiAffinity"`
	CSelector        bool   `json:"cSelector"` // canary nodeSelector is canary=yes (otherwise it selects every node)
	APEnabled        bool   `json:"apEnabled"`
	APMaxRestarts    int    `json:"apMaxRestarts"`
	APMaxSlowStart   int    `json:"apMaxSlowStart"`
	AFEnabled        bool   `json:"afEnabled"`
	AFMaxRestarts    int    `json:"afMaxRestarts"`
	AFMaxRestartsDur int    `json:"afMaxRestartsDur"`
	AFTimeout        int    `json:"afTimeout"`
}

// EDSS is the projection of an ExtendedDaemonSet.
type EDSS struct {
	Key       string `json:"key"`
	NS        string `json:"ns"`
	Name      string `json:"name"`
	Defaulted bool   `json:"defaulted"`
	Tmpl      string `json:"tmpl"`
	Strat     StratS `json:"strat"`
	// annotations
	RUPaused  bool   `json:"ruPaused"`
	Frozen    bool   `json:"frozen"`
	CPaused   bool   `json:"cPaused"`
	CUnpaused bool   `json:"cUnpaused"`
	CValid    int    `json:"cValid"` // id of the RS named by canary-valid in this namespace, 0 absent, -1 names no RS
	OldDS     string `json:"oldDS"`
	// status
	Active    int      `json:"active"` // id of status.activeReplicaSet (0 = "", -1 = names no existing RS)
	ActiveName string  `json:"activeName"`
	HasCanary bool     `json:"hasCanary"`
	CanaryRS  int      `json:"canaryRS"`
	CNodes    []string `json:"cNodes"`
	State     string   `json:"state"`
	Reason    string   `json:"reason"`
	Desired   int      `json:"desired"`
	Current   int      `json:"current"`
	Ready     int      `json:"ready"`
	Available int      `json:"available"`
	UpToDate  int      `json:"upToDate"`
	Ignored   int      `json:"ignored"`
	CondPaused CondS   `json:"condPaused"`
	CondFailed CondS   `json:"condFailed"`
}

// SettingS is the projection of an ExtendedDaemonsetSetting.
type SettingS struct {
	NS     string `json:"ns"`
	Name   string `json:"name"`
	Ref    string `json:"ref"`
	Sel    string `json:"sel"` // value(s) of label grp selected, joined by "+" ("" = unusable / none)
	Sels   []string `json:"sels"` // the same as a list
	Res    string `json:"res"` // resource class demanded for container main
	Age    int    `json:"age"`
	Born   int    `json:"born"` // creation instant in virtual seconds since the start of the harness process (the controller orders settings by it)
	Status string `json:"status"`
	Err    string `json:"err"` // "" | conflict | missing | selector | other
}

// PTmplS is the projection of a PodTemplate.
type PTmplS struct {
	NS   string `json:"ns"`
	Name string `json:"name"`
	Tmpl string `json:"tmpl"`
	Hash string `json:"hash"`
	Owner string `json:"owner"`
}

// State is the abstract state.
type State struct {
	Now      int        `json:"now"`
	Nodes    []NodeS    `json:"nodes"`
	Pods     []PodS     `json:"pods"`
	RS       []RSS      `json:"rs"`
	EDS      []EDSS     `json:"eds"`
	Settings []SettingS `json:"settings"`
	PTmpl    []PTmplS   `json:"ptmpl"`
}

// ---- events ----

// Write is one API write issued by a reconciler or command (observed in the client interceptor).
type Write struct {
	Seq   int    `json:"seq"`  // global API call index of the trace
	Verb  string `json:"verb"` // create | update | patch | delete | status
	Kind  string `json:"kind"` // Pod | ERS | EDS | PodTemplate | Setting | Other
	NS    string `json:"ns"`
	Name  string `json:"name"`
	ID    int    `json:"id"`   // pod id / rs id, 0 otherwise
	Node  string `json:"node"` // pods: node the pod is pinned to
	Hash  string `json:"hash"` // pods: template identity of the hash annotation; ERS: identity of spec.template
	RS    int    `json:"rs"`   // pods: id of the RS in the RS-name label
	EDS   string `json:"eds"`  // pods / ERS: value of the EDS-name label
	Owner string `json:"owner"`
	Ready bool   `json:"ready"` // pods, at the time of the call
	Phase string `json:"phase"`
	Term  bool   `json:"term"`
	OK    bool   `json:"ok"`
	Inj   string `json:"inj"` // injected fault: "" | reject | lost | crash
	What  string `json:"what"` // patch/update detail: e.g. +clabel, -clabel, spec, annotations
}

// Result is what Reconcile returned.
type Result struct {
	Requeue bool   `json:"requeue"`
	After   int    `json:"after"` // seconds, rounded up
	Err     bool   `json:"err"`
	ErrMsg  string `json:"errMsg"`
	ErrKind string `json:"errKind"` // "" | nodes (not enough canary nodes) | injected | conflict | notfound | validation | other
	Panic   bool   `json:"panic"`
	NErrs   int    `json:"nErrs"` // number of aggregated errors, when the error is an aggregate
}

// Event is one line of the trace.
type Event struct {
	Ev     string            `json:"ev"`
	Key    string            `json:"key"` // reconciled object "ns/name" (or target of a command / env action)
	RS     int               `json:"rs"`  // ERSReconcile: id of the RS
	Args   map[string]string `json:"args"`
	Reads  int               `json:"reads"`
	Writes []Write           `json:"writes"`
	Res    Result            `json:"res"`
	State  State             `json:"state"`
}
