package sim

import (
	"context"
	"fmt"
	"sort"
	"strings"
	"time"

	appsv1 "k8s.io/api/apps/v1"
	autoscalingv1 "k8s.io/api/autoscaling/v1"
	corev1 "k8s.io/api/core/v1"
	metav1 "k8s.io/apimachinery/pkg/apis/meta/v1"
	"k8s.io/apimachinery/pkg/types"
	"k8s.io/apimachinery/pkg/util/intstr"
	"sigs.k8s.io/controller-runtime/pkg/client"

	edsv1 "github.com/DataDog/extendeddaemonset/api/v1alpha1"
)

var bg = context.Background()

func nowT() metav1.Time { return metav1.NewTime(time.Now().Truncate(time.Second)) }

// ---------- nodes ----------

// NodeAdd creates a node fit for the listed templates.
func (c *Cluster) NodeAdd(name string, fits []string, csel bool, zone string) error {
	n := &corev1.Node{ObjectMeta: metav1.ObjectMeta{Name: name, Labels: map[string]string{}, CreationTimestamp: nowT()}}
	for _, t := range fits {
		n.Labels[FitLabelPrefix+t] = "yes"
	}
	if csel {
		n.Labels[CanaryNodeLabel] = "yes"
	}
	if zone != "" {
		n.Labels[ZoneLabel] = zone
	}
	n.Status.Conditions = []corev1.NodeCondition{{Type: corev1.NodeReady, Status: corev1.ConditionTrue}}
	return c.base.Create(bg, n)
}

func (c *Cluster) getNode(name string) (*corev1.Node, error) {
	n := &corev1.Node{}
	err := c.base.Get(bg, client.ObjectKey{Name: name}, n)
	return n, err
}

// NodeRemove deletes the node (pods stay, as in a real cluster until the pod GC acts).
func (c *Cluster) NodeRemove(name string) error {
	n, err := c.getNode(name)
	if err != nil {
		return err
	}
	return c.base.Delete(bg, n)
}

// NodeSetFits replaces the fit labels.
func (c *Cluster) NodeSetFits(name string, fits []string) error {
	n, err := c.getNode(name)
	if err != nil {
		return err
	}
	for k := range n.Labels {
		if strings.HasPrefix(k, FitLabelPrefix) {
			delete(n.Labels, k)
		}
	}
	for _, t := range fits {
		n.Labels[FitLabelPrefix+t] = "yes"
	}
	return c.base.Update(bg, n)
}

// NodeLabel sets (or with v == "" removes) a label.
func (c *Cluster) NodeLabel(name, k, v string) error {
	n, err := c.getNode(name)
	if err != nil {
		return err
	}
	if n.Labels == nil {
		n.Labels = map[string]string{}
	}
	if v == "" {
		delete(n.Labels, k)
	} else {
		n.Labels[k] = v
	}
	return c.base.Update(bg, n)
}

// NodeTaint adds or removes the untolerated NoSchedule taint.
func (c *Cluster) NodeTaint(name string, on bool) error {
	n, err := c.getNode(name)
	if err != nil {
		return err
	}
	var ts []corev1.Taint
	for _, t := range n.Spec.Taints {
		if t.Key != TaintKey {
			ts = append(ts, t)
		}
	}
	if on {
		ts = append(ts, corev1.Taint{Key: TaintKey, Value: "x", Effect: corev1.TaintEffectNoSchedule})
	}
	n.Spec.Taints = ts
	return c.base.Update(bg, n)
}

// NodeOverride sets the resource override annotation of container main for EDS ns/name (class none removes it).
func (c *Cluster) NodeOverride(node, ns, name, class, container string) error {
	n, err := c.getNode(node)
	if err != nil {
		return err
	}
	if container == "" {
		container = MainContainer
	}
	key := fmt.Sprintf(edsv1.ExtendedDaemonSetRessourceNodeAnnotationKey, ns, name, container)
	if n.Annotations == nil {
		n.Annotations = map[string]string{}
	}
	if class == "none" || class == "" {
		delete(n.Annotations, key)
	} else {
		n.Annotations[key] = ResClassJSON(class)
	}
	return c.base.Update(bg, n)
}

// ---------- pods (kubelet / scheduler) ----------

// PodsOnNode returns the pods pinned to node, oldest (smallest id) first.
func (c *Cluster) PodsOnNode(node string) []*corev1.Pod {
	var pods corev1.PodList
	_ = c.base.List(bg, &pods)
	var out []*corev1.Pod
	for i := range pods.Items {
		if podNode(&pods.Items[i]) == node {
			out = append(out, &pods.Items[i])
		}
	}
	c.mu.Lock()
	sort.Slice(out, func(i, j int) bool {
		return c.podIDs[out[i].Namespace+"/"+out[i].Name] < c.podIDs[out[j].Namespace+"/"+out[j].Name]
	})
	c.mu.Unlock()
	return out
}

// PodByID returns the pod with harness id.
func (c *Cluster) PodByID(id int) *corev1.Pod {
	var pods corev1.PodList
	_ = c.base.List(bg, &pods)
	c.mu.Lock()
	defer c.mu.Unlock()
	for i := range pods.Items {
		if c.podIDs[pods.Items[i].Namespace+"/"+pods.Items[i].Name] == id {
			return &pods.Items[i]
		}
	}
	return nil
}

func setPodCond(p *corev1.Pod, t corev1.PodConditionType, s corev1.ConditionStatus, reason string) {
	for i := range p.Status.Conditions {
		if p.Status.Conditions[i].Type == t {
			if p.Status.Conditions[i].Status != s {
				p.Status.Conditions[i].LastTransitionTime = nowT()
			}
			p.Status.Conditions[i].Status = s
			p.Status.Conditions[i].Reason = reason
			return
		}
	}
	p.Status.Conditions = append(p.Status.Conditions, corev1.PodCondition{Type: t, Status: s, Reason: reason, LastTransitionTime: nowT()})
}

func mainStatus(p *corev1.Pod) *corev1.ContainerStatus {
	for i := range p.Status.ContainerStatuses {
		if p.Status.ContainerStatuses[i].Name == MainContainer {
			return &p.Status.ContainerStatuses[i]
		}
	}
	p.Status.ContainerStatuses = append(p.Status.ContainerStatuses, corev1.ContainerStatus{Name: MainContainer})
	return &p.Status.ContainerStatuses[len(p.Status.ContainerStatuses)-1]
}

// Bind is the scheduler binding an affinity-pinned pod to its node.
func (c *Cluster) Bind(p *corev1.Pod) error {
	if p.Spec.NodeName != "" {
		return nil
	}
	n := podNode(p)
	if n == "" {
		return fmt.Errorf("no node")
	}
	p.Spec.NodeName = n
	setPodCond(p, corev1.PodScheduled, corev1.ConditionTrue, "")
	return c.rawUpdate(p)
}

// KStart: containers created and running, not yet ready.
func (c *Cluster) KStart(p *corev1.Pod) error {
	p.Status.Phase = corev1.PodRunning
	if p.Status.StartTime == nil {
		t := nowT()
		p.Status.StartTime = &t
	}
	setPodCond(p, corev1.PodScheduled, corev1.ConditionTrue, "")
	setPodCond(p, corev1.PodReady, corev1.ConditionFalse, "")
	cs := mainStatus(p)
	cs.State = corev1.ContainerState{Running: &corev1.ContainerStateRunning{StartedAt: nowT()}}
	return c.rawUpdate(p)
}

// KReady: pod Ready.
func (c *Cluster) KReady(p *corev1.Pod) error {
	if p.Status.Phase != corev1.PodRunning {
		if err := c.KStart(p); err != nil {
			return err
		}
	}
	setPodCond(p, corev1.PodReady, corev1.ConditionTrue, "")
	cs := mainStatus(p)
	cs.Ready = true
	return c.rawUpdate(p)
}

// KUnready: pod loses readiness.
func (c *Cluster) KUnready(p *corev1.Pod) error {
	setPodCond(p, corev1.PodReady, corev1.ConditionFalse, "")
	mainStatus(p).Ready = false
	return c.rawUpdate(p)
}

// KRestart: the main container restarts once (terminated with reason, running again, not ready).
func (c *Cluster) KRestart(p *corev1.Pod, reason string) error {
	if p.Status.Phase != corev1.PodRunning {
		if err := c.KStart(p); err != nil {
			return err
		}
	}
	cs := mainStatus(p)
	cs.RestartCount++
	cs.LastTerminationState = corev1.ContainerState{Terminated: &corev1.ContainerStateTerminated{Reason: reason, ExitCode: 1, FinishedAt: nowT(), StartedAt: nowT()}}
	cs.State = corev1.ContainerState{Running: &corev1.ContainerStateRunning{StartedAt: nowT()}}
	cs.Ready = false
	setPodCond(p, corev1.PodReady, corev1.ConditionFalse, "")
	return c.rawUpdate(p)
}

// KWaiting: the main container waits with the given reason (ErrImagePull, ContainerCreating, CrashLoopBackOff, ...).
func (c *Cluster) KWaiting(p *corev1.Pod, reason string) error {
	if p.Status.Phase == "" {
		p.Status.Phase = corev1.PodPending
	}
	if p.Status.StartTime == nil {
		t := nowT()
		p.Status.StartTime = &t
	}
	cs := mainStatus(p)
	cs.State = corev1.ContainerState{Waiting: &corev1.ContainerStateWaiting{Reason: reason}}
	cs.Ready = false
	setPodCond(p, corev1.PodReady, corev1.ConditionFalse, "")
	return c.rawUpdate(p)
}

// KFail: pod evicted (phase Failed).
func (c *Cluster) KFail(p *corev1.Pod) error {
	p.Status.Phase = corev1.PodFailed
	p.Status.Reason = "Evicted"
	setPodCond(p, corev1.PodReady, corev1.ConditionFalse, "")
	return c.rawUpdate(p)
}

// KLost: node lost, phase Unknown.
func (c *Cluster) KLost(p *corev1.Pod) error {
	p.Status.Phase = corev1.PodUnknown
	setPodCond(p, corev1.PodReady, corev1.ConditionFalse, "")
	return c.rawUpdate(p)
}

// KFinish: a terminating pod disappears.
func (c *Cluster) KFinish(p *corev1.Pod) error {
	if p.DeletionTimestamp == nil {
		return fmt.Errorf("not terminating")
	}
	return c.rawDelete(p)
}

// KStuck back-dates the pod so that it counts as stuck: unscheduled for more than ten minutes, or terminating
// past its grace period.
func (c *Cluster) KStuck(p *corev1.Pod) error {
	if p.DeletionTimestamp != nil {
		g := int64(30)
		p.DeletionGracePeriodSeconds = &g
		t := metav1.NewTime(time.Now().Add(-2 * time.Minute).Truncate(time.Second))
		p.DeletionTimestamp = &t
		return c.rawUpdate(p)
	}
	if p.Spec.NodeName == "" {
		p.CreationTimestamp = metav1.NewTime(time.Now().Add(-11 * time.Minute).Truncate(time.Second))
		return c.rawUpdate(p)
	}
	return fmt.Errorf("pod can not be stuck")
}

// KRound lets every pod progress: bind, start, ready; terminating pods disappear.
func (c *Cluster) KRound() {
	var pods corev1.PodList
	_ = c.base.List(bg, &pods)
	for i := range pods.Items {
		p := &pods.Items[i]
		if p.DeletionTimestamp != nil {
			_ = c.KFinish(p)
			continue
		}
		if p.Status.Phase == corev1.PodFailed || p.Status.Phase == corev1.PodUnknown {
			continue
		}
		n := podNode(p)
		if n == "" {
			continue
		}
		if _, err := c.getNode(n); err != nil {
			continue
		}
		if p.Spec.NodeName == "" {
			_ = c.Bind(p)
		}
		if cs := mainStatusRO(p); cs != nil && cs.State.Waiting != nil {
			// "created pods get scheduled and become Ready": the kubelet eventually gets the container running
			cs.State = corev1.ContainerState{Running: &corev1.ContainerStateRunning{StartedAt: nowT()}}
		}
		_ = c.KReady(p)
	}
}

func mainStatusRO(p *corev1.Pod) *corev1.ContainerStatus {
	for i := range p.Status.ContainerStatuses {
		if p.Status.ContainerStatuses[i].Name == MainContainer {
			return &p.Status.ContainerStatuses[i]
		}
	}
	return nil
}

// ForeignPod creates a pod the controllers did not create. kind: dup (copy of the node's first pod),
// unrelated (no EDS label, overlapping app label), otherns (same EDS label in namespace "other"), ds (owned by DaemonSet V).
func (c *Cluster) ForeignPod(node, kind, ns, edsName, dsName string) error {
	var p *corev1.Pod
	switch kind {
	case "dup":
		ps := c.PodsOnNode(node)
		var src *corev1.Pod
		for _, x := range ps {
			if x.Namespace == ns && x.Labels[edsv1.ExtendedDaemonSetNameLabelKey] == edsName {
				src = x
				break
			}
		}
		if src == nil {
			return fmt.Errorf("no pod to duplicate")
		}
		p = src.DeepCopy()
		p.ObjectMeta = metav1.ObjectMeta{Namespace: src.Namespace, GenerateName: src.GenerateName, Labels: src.Labels, Annotations: src.Annotations, OwnerReferences: src.OwnerReferences}
		p.Status = corev1.PodStatus{}
		p.DeletionTimestamp = nil
	case "unrelated":
		p = &corev1.Pod{ObjectMeta: metav1.ObjectMeta{Namespace: ns, GenerateName: "unrelated-", Labels: map[string]string{"app": "agent"}},
			Spec: corev1.PodSpec{NodeName: node, Containers: []corev1.Container{{Name: MainContainer, Image: "x"}}}}
	case "otherns":
		p = &corev1.Pod{ObjectMeta: metav1.ObjectMeta{Namespace: "other", GenerateName: "otherns-", Labels: map[string]string{"app": "agent", edsv1.ExtendedDaemonSetNameLabelKey: edsName}},
			Spec: corev1.PodSpec{NodeName: node, Containers: []corev1.Container{{Name: MainContainer, Image: "x"}}}}
	case "ds2":
		// a pod of ANOTHER DaemonSet whose labels match the old DaemonSet's selector
		t := true
		p = &corev1.Pod{ObjectMeta: metav1.ObjectMeta{Namespace: ns, GenerateName: "other-ds-", Labels: map[string]string{"app": "agent", "ds": dsName},
			OwnerReferences: []metav1.OwnerReference{{APIVersion: "apps/v1", Kind: "DaemonSet", Name: "other-ds", UID: "ds2-uid", Controller: &t}}},
			Spec: corev1.PodSpec{NodeName: node, Containers: []corev1.Container{{Name: MainContainer, Image: "other"}}}}
	case "ds":
		t := true
		p = &corev1.Pod{ObjectMeta: metav1.ObjectMeta{Namespace: ns, GenerateName: dsName + "-", Labels: map[string]string{"app": "agent", "ds": dsName},
			OwnerReferences: []metav1.OwnerReference{{APIVersion: "apps/v1", Kind: "DaemonSet", Name: dsName, UID: "ds-uid", Controller: &t}}},
			Spec: corev1.PodSpec{NodeName: node, Containers: []corev1.Container{{Name: MainContainer, Image: "old"}}}}
	default:
		return fmt.Errorf("unknown kind %s", kind)
	}
	c.prepareCreate(p)
	if err := c.base.Create(bg, p); err != nil {
		return err
	}
	c.registerCreated(p, true)
	return nil
}

// CreateDaemonSet creates the old DaemonSet used by the migration annotation.
func (c *Cluster) CreateDaemonSet(ns, name string) error {
	ds := &appsv1.DaemonSet{ObjectMeta: metav1.ObjectMeta{Namespace: ns, Name: name, CreationTimestamp: nowT(), UID: "ds-uid"},
		Spec: appsv1.DaemonSetSpec{Selector: &metav1.LabelSelector{MatchLabels: map[string]string{"ds": name}}}}
	return c.base.Create(bg, ds)
}

// ---------- user ----------

// StrategyConfig is the strategy a driver gives to a new EDS (zero values are left for defaulting).
type StrategyConfig struct {
	MaxUnavailable    string
	MaxSchedFailure   string
	MaxParallel       int
	SlowStartInterval int // units; 0 = leave to default (1 min = 1 unit)
	SlowStartIncrease string
	Frequency         int // units
	Canary            bool
	CReplicas         string
	CDuration         int // units
	CNoRestarts       int // units, -1 = leave unset
	CMode             string
	CAntiAffinity     bool
	CSelector         bool // canary nodeSelector canary=yes
	APEnabled         *bool
	APMaxRestarts     int
	APMaxSlowStart    int
	AFEnabled         *bool
	AFMaxRestarts     int
	AFMaxRestartsDur  int
	AFTimeout         int
}

func parseIntStr(s string) *intstr.IntOrString {
	if s == "" {
		return nil
	}
	v := intstr.Parse(s)
	return &v
}

func unitsDur(n int) *metav1.Duration {
	return &metav1.Duration{Duration: time.Duration(n) * Unit}
}

// BuildStrategy converts a StrategyConfig.
func BuildStrategy(sc StrategyConfig) edsv1.ExtendedDaemonSetSpecStrategy {
	s := edsv1.ExtendedDaemonSetSpecStrategy{}
	s.RollingUpdate.MaxUnavailable = parseIntStr(sc.MaxUnavailable)
	s.RollingUpdate.MaxPodSchedulerFailure = parseIntStr(sc.MaxSchedFailure)
	s.RollingUpdate.SlowStartAdditiveIncrease = parseIntStr(sc.SlowStartIncrease)
	if sc.MaxParallel > 0 {
		v := int32(sc.MaxParallel)
		s.RollingUpdate.MaxParallelPodCreation = &v
	}
	if sc.SlowStartInterval > 0 {
		s.RollingUpdate.SlowStartIntervalDuration = unitsDur(sc.SlowStartInterval)
	}
	if sc.Frequency > 0 {
		s.ReconcileFrequency = unitsDur(sc.Frequency)
	}
	if sc.Canary {
		cn := &edsv1.ExtendedDaemonSetSpecStrategyCanary{}
		cn.Replicas = parseIntStr(sc.CReplicas)
		cn.ValidationMode = edsv1.ExtendedDaemonSetSpecStrategyCanaryValidationMode(sc.CMode)
		if sc.CDuration > 0 {
			cn.Duration = unitsDur(sc.CDuration)
		}
		if sc.CNoRestarts >= 0 && sc.CMode != "manual" {
			cn.NoRestartsDuration = unitsDur(sc.CNoRestarts)
		}
		if sc.CAntiAffinity {
			cn.NodeAntiAffinityKeys = []string{ZoneLabel}
		}
		if sc.CSelector {
			cn.NodeSelector = &metav1.LabelSelector{MatchLabels: map[string]string{CanaryNodeLabel: "yes"}}
		}
		cn.AutoPause = &edsv1.ExtendedDaemonSetSpecStrategyCanaryAutoPause{Enabled: sc.APEnabled}
		if sc.APMaxRestarts > 0 {
			v := int32(sc.APMaxRestarts)
			cn.AutoPause.MaxRestarts = &v
		}
		if sc.APMaxSlowStart > 0 {
			cn.AutoPause.MaxSlowStartDuration = unitsDur(sc.APMaxSlowStart)
		}
		cn.AutoFail = &edsv1.ExtendedDaemonSetSpecStrategyCanaryAutoFail{Enabled: sc.AFEnabled}
		if sc.AFMaxRestarts > 0 {
			v := int32(sc.AFMaxRestarts)
			cn.AutoFail.MaxRestarts = &v
		}
		if sc.AFMaxRestartsDur > 0 {
			cn.AutoFail.MaxRestartsDuration = unitsDur(sc.AFMaxRestartsDur)
		}
		if sc.AFTimeout > 0 {
			cn.AutoFail.CanaryTimeout = unitsDur(sc.AFTimeout)
		}
		s.Canary = cn
	}
	return s
}

// CreateEDS creates an ExtendedDaemonSet with template identity tmpl.
func (c *Cluster) CreateEDS(ns, name, tmpl string, sc StrategyConfig) error {
	e := &edsv1.ExtendedDaemonSet{ObjectMeta: metav1.ObjectMeta{Namespace: ns, Name: name, CreationTimestamp: nowT(), UID: types.UID("eds-uid-" + ns + "-" + name),
		Labels: map[string]string{"team": "x"}}}
	e.Spec.Template = *c.Templates[tmpl].DeepCopy()
	e.Spec.Strategy = BuildStrategy(sc)
	return c.base.Create(bg, e)
}

// GetEDS fetches the EDS.
func (c *Cluster) GetEDS(ns, name string) (*edsv1.ExtendedDaemonSet, error) {
	e := &edsv1.ExtendedDaemonSet{}
	err := c.base.Get(bg, client.ObjectKey{Namespace: ns, Name: name}, e)
	return e, err
}

// SetTemplate is the user editing spec.template.
func (c *Cluster) SetTemplate(ns, name, tmpl string) error {
	e, err := c.GetEDS(ns, name)
	if err != nil {
		return err
	}
	e.Spec.Template = *c.Templates[tmpl].DeepCopy()
	return c.base.Update(bg, e)
}

// SetStrategy is the user replacing spec.strategy.
func (c *Cluster) SetStrategy(ns, name string, sc StrategyConfig) error {
	e, err := c.GetEDS(ns, name)
	if err != nil {
		return err
	}
	e.Spec.Strategy = BuildStrategy(sc)
	return c.base.Update(bg, e)
}

// MutateEDS applies f to the EDS and updates it.
func (c *Cluster) MutateEDS(ns, name string, f func(*edsv1.ExtendedDaemonSet)) error {
	e, err := c.GetEDS(ns, name)
	if err != nil {
		return err
	}
	f(e)
	return c.base.Update(bg, e)
}

// AnnotationKey maps the short annotation names of the action vocabulary.
func AnnotationKey(short string) string {
	switch short {
	case "ru-paused":
		return edsv1.ExtendedDaemonSetRollingUpdatePausedAnnotationKey
	case "frozen":
		return edsv1.ExtendedDaemonSetRolloutFrozenAnnotationKey
	case "c-paused":
		return edsv1.ExtendedDaemonSetCanaryPausedAnnotationKey
	case "c-unpaused":
		return edsv1.ExtendedDaemonSetCanaryUnpausedAnnotationKey
	case "c-valid":
		return edsv1.ExtendedDaemonSetCanaryValidAnnotationKey
	case "old-ds":
		return edsv1.ExtendedDaemonSetOldDaemonsetAnnotationKey
	case "tmpl-hash":
		return edsv1.MD5ExtendedDaemonSetAnnotationKey
	}
	return short
}

// SetAnnotation sets (v == "" removes) an annotation of the EDS.
func (c *Cluster) SetAnnotation(ns, name, short, v string) error {
	return c.MutateEDS(ns, name, func(e *edsv1.ExtendedDaemonSet) {
		if e.Annotations == nil {
			e.Annotations = map[string]string{}
		}
		if v == "" {
			delete(e.Annotations, AnnotationKey(short))
		} else {
			e.Annotations[AnnotationKey(short)] = v
		}
	})
}

// RSOf returns the replica sets owned (by label) by EDS name in ns, by ascending id.
func (c *Cluster) RSOf(ns, name string) []*edsv1.ExtendedDaemonSetReplicaSet {
	var l edsv1.ExtendedDaemonSetReplicaSetList
	_ = c.base.List(bg, &l, client.InNamespace(ns))
	var out []*edsv1.ExtendedDaemonSetReplicaSet
	for i := range l.Items {
		if l.Items[i].Labels[edsv1.ExtendedDaemonSetNameLabelKey] == name {
			out = append(out, &l.Items[i])
		}
	}
	c.mu.Lock()
	sort.Slice(out, func(i, j int) bool { return c.rsIDs[ns+"/"+out[i].Name] < c.rsIDs[ns+"/"+out[j].Name] })
	c.mu.Unlock()
	return out
}

// RSByID finds a replica set by harness id.
func (c *Cluster) RSByID(id int) *edsv1.ExtendedDaemonSetReplicaSet {
	var l edsv1.ExtendedDaemonSetReplicaSetList
	_ = c.base.List(bg, &l)
	c.mu.Lock()
	defer c.mu.Unlock()
	for i := range l.Items {
		if c.rsIDs[l.Items[i].Namespace+"/"+l.Items[i].Name] == id {
			return &l.Items[i]
		}
	}
	return nil
}

// RSByTemplate finds the (oldest) replica set of the EDS whose template has identity tmpl.
func (c *Cluster) RSByTemplate(ns, name, tmpl string) *edsv1.ExtendedDaemonSetReplicaSet {
	for _, r := range c.RSOf(ns, name) {
		if c.identOfTemplate(&r.Spec.Template) == tmpl {
			return r
		}
	}
	return nil
}

// CreateSetting creates an ExtendedDaemonsetSetting selecting nodes with grp=sel.
func (c *Cluster) CreateSetting(ns, name, ref, sel, res string, byExpr bool, created time.Time) error {
	s := &edsv1.ExtendedDaemonsetSetting{ObjectMeta: metav1.ObjectMeta{Namespace: ns, Name: name, CreationTimestamp: metav1.NewTime(created.Truncate(time.Second)), UID: types.UID("set-" + ns + "-" + name)}}
	if ref != "" {
		s.Spec.Reference = &autoscalingv1.CrossVersionObjectReference{Kind: "ExtendedDaemonset", Name: ref}
	}
	switch {
	case sel == "!bad":
		s.Spec.NodeSelector = metav1.LabelSelector{MatchExpressions: []metav1.LabelSelectorRequirement{{Key: GroupLabel, Operator: "BadOp", Values: []string{"x"}}}}
	case byExpr || strings.Contains(sel, "+"):
		// "g1+g2": the nodes of either group (partial overlaps between settings need selectors that are not all-or-nothing)
		s.Spec.NodeSelector = metav1.LabelSelector{MatchExpressions: []metav1.LabelSelectorRequirement{{Key: GroupLabel, Operator: metav1.LabelSelectorOpIn, Values: strings.Split(sel, "+")}}}
	default:
		s.Spec.NodeSelector = metav1.LabelSelector{MatchLabels: map[string]string{GroupLabel: sel}}
	}
	if r, ok := resClasses[res]; ok {
		s.Spec.Containers = []edsv1.ExtendedDaemonsetSettingContainerSpec{{Name: MainContainer, Resources: r}}
	}
	return c.base.Create(bg, s)
}

// settingInstant is the creation instant of a setting created `age` units before the virtual now.  It is anchored at the start
// of the cluster (not at the wall clock) so that settings created in the same virtual instant carry the same timestamp: the
// controller breaks such ties by name, and a tie must not depend on the wall-clock second in which the harness happened to run.
func (c *Cluster) settingInstant(age int) time.Time {
	return time.Unix(c.startUnix+1, 0).Add(-time.Duration(age) * Unit)
}

// DeleteSetting removes a setting.
func (c *Cluster) DeleteSetting(ns, name string) error {
	s := &edsv1.ExtendedDaemonsetSetting{}
	if err := c.base.Get(bg, client.ObjectKey{Namespace: ns, Name: name}, s); err != nil {
		return err
	}
	return c.base.Delete(bg, s)
}

// GCOwned deletes replica sets, pods and pod templates whose controller owner no longer exists.
func (c *Cluster) GCOwned() {
	var edsl edsv1.ExtendedDaemonSetList
	_ = c.base.List(bg, &edsl)
	have := map[string]bool{}
	for _, e := range edsl.Items {
		have[e.Namespace+"/"+e.Name] = true
	}
	var rsl edsv1.ExtendedDaemonSetReplicaSetList
	_ = c.base.List(bg, &rsl)
	haveRS := map[string]bool{}
	for i := range rsl.Items {
		r := &rsl.Items[i]
		gone := false
		for _, o := range r.OwnerReferences {
			if o.Kind == "ExtendedDaemonSet" && !have[r.Namespace+"/"+o.Name] {
				gone = true
			}
		}
		if gone {
			_ = c.rawDelete(r)
		} else {
			haveRS[r.Namespace+"/"+r.Name] = true
		}
	}
	var pods corev1.PodList
	_ = c.base.List(bg, &pods)
	for i := range pods.Items {
		p := &pods.Items[i]
		for _, o := range p.OwnerReferences {
			if o.Kind == "ExtendedDaemonSetReplicaSet" && !haveRS[p.Namespace+"/"+o.Name] && p.DeletionTimestamp == nil {
				_ = c.base.Delete(bg, p)
			}
		}
	}
}
