//go:build verif

package sim

import (
	"time"

	testingclock "k8s.io/utils/clock/testing"
	"sigs.k8s.io/controller-runtime/pkg/reconcile"

	ersctrl "github.com/DataDog/extendeddaemonset/controllers/extendeddaemonsetreplicaset"
)

// HooksEnabled says whether the harness was built with the verif hooks of /repo.
const HooksEnabled = true

// installBackOffClock puts the failed-pod back-off of the ERS reconciler on the virtual clock.
func (c *Cluster) installBackOffClock(r reconcile.Reconciler) {
	if rr, ok := r.(*ersctrl.Reconciler); ok {
		if c.backoffClock == nil {
			c.backoffClock = testingclock.NewFakeClock(time.Now())
		}
		rr.VerifSetBackOffClock(c.backoffClock)
	}
}

func (c *Cluster) advanceBackOffClock(d time.Duration) {
	if c.backoffClock != nil {
		c.backoffClock.Step(d)
	}
}
