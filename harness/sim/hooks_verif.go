//go:build verif

package sim

import (
	"fmt"
	"io"
	"strings"
	"time"

	metav1 "k8s.io/apimachinery/pkg/apis/meta/v1"
	generator "k8s.io/kube-state-metrics/v2/pkg/metric_generator"
	testingclock "k8s.io/utils/clock/testing"
	"sigs.k8s.io/controller-runtime/pkg/reconcile"

	edsv1 "github.com/DataDog/extendeddaemonset/api/v1alpha1"
	edsctrl "github.com/DataDog/extendeddaemonset/controllers/extendeddaemonset"
	ersctrl "github.com/DataDog/extendeddaemonset/controllers/extendeddaemonsetreplicaset"
	canarycmd "github.com/DataDog/extendeddaemonset/pkg/plugin/canary"
	freezecmd "github.com/DataDog/extendeddaemonset/pkg/plugin/freeze"
	pausecmd "github.com/DataDog/extendeddaemonset/pkg/plugin/pause"
)

// HooksEnabled says whether the harness was built with the verif hooks of /repo.
const HooksEnabled = true

// installBackOffClock puts the failed-pod back-off of the ERS reconciler on the virtual clock.
func (c *Cluster) installBackOffClock(r reconcile.Reconciler) {
	if rr, ok := r.(*ersctrl.Reconciler); ok {
		if c.backoffClock == nil {
			c.backoffClock = testingclock.NewFakeClock(time.Now())
		}
		rr.VerifSetBackOffClock(c.backoffClock)
	}
}

func (c *Cluster) advanceBackOffClock(d time.Duration) {
	if c.backoffClock != nil {
		c.backoffClock.Step(d)
	}
}

// RunCmd runs the body of a kubectl-eds command through the verif shim with the instrumented "cmd" client.
func RunCmd(c *Cluster, key, name string) (Event, error) {
	ns, n := splitKey(key)
	a := c.actors["cmd"]
	c.mu.Lock()
	a.writes, a.reads = nil, 0
	c.mu.Unlock()
	var err error
	switch name {
	case "canary-pause":
		err = canarycmd.VerifRunPause(a.Client, ns, n, true, io.Discard)
	case "canary-unpause":
		err = canarycmd.VerifRunPause(a.Client, ns, n, false, io.Discard)
	case "canary-validate":
		err = canarycmd.VerifRunValidate(a.Client, ns, n, io.Discard)
	case "canary-fail":
		err = canarycmd.VerifRunFail(a.Client, ns, n, io.Discard)
	case "ru-pause":
		err = pausecmd.VerifRun(a.Client, ns, n, true, io.Discard)
	case "ru-unpause":
		err = pausecmd.VerifRun(a.Client, ns, n, false, io.Discard)
	case "freeze":
		err = freezecmd.VerifRun(a.Client, ns, n, true, io.Discard)
	case "unfreeze":
		err = freezecmd.VerifRun(a.Client, ns, n, false, io.Discard)
	default:
		return Event{}, fmt.Errorf("unknown command %s", name)
	}
	c.mu.Lock()
	ev := Event{Key: key, Writes: append([]Write{}, a.writes...), Reads: a.reads, Args: map[string]string{"_": "", "v": name}}
	c.mu.Unlock()
	ev.Res = Result{Err: err != nil}
	if err != nil {
		ev.Res.ErrMsg, ev.Res.ErrKind, ev.Res.NErrs = err.Error(), "refused", 1
	}
	return ev, nil
}

func init() { DefaultCmd = RunCmd }

// fnMetrics builds an object from the vector, runs the real metric family generators and returns name -> value
// (first metric of each family) plus the label pairs of the *_labels family.
func fnMetrics(v *FnVector) map[string]interface{} {
	out := map[string]interface{}{"panic": false}
	vals := map[string]float64{}
	var lkeys, lvals []string
	p := safely(func() {
		var fams []generator.FamilyGenerator
		var obj interface{}
		meta := metav1.ObjectMeta{Namespace: "ns1", Name: "foo", Labels: map[string]string{"extendeddaemonset.datadoghq.com/name": "foo", "team": "x"}, Annotations: map[string]string{},
			CreationTimestamp: metav1.NewTime(time.Unix(1700000000, 0))}
		if v.Kind == "eds" {
			e := &edsv1.ExtendedDaemonSet{ObjectMeta: meta}
			e.Status.Desired, e.Status.Current, e.Status.Ready = int32(v.Status["desired"]), int32(v.Status["current"]), int32(v.Status["ready"])
			e.Status.Available, e.Status.UpToDate, e.Status.IgnoredUnresponsiveNodes = int32(v.Status["available"]), int32(v.Status["upToDate"]), int32(v.Status["ignored"])
			if v.Flags["canary"] {
				e.Status.Canary = &edsv1.ExtendedDaemonSetStatusCanary{ReplicaSet: "foo-x"}
				for i := 0; i < v.Status["canaryNodes"]; i++ {
					e.Status.Canary.Nodes = append(e.Status.Canary.Nodes, fmt.Sprintf("n%d", i))
				}
			}
			switch v.CPaused {
			case "true":
				e.Status.Conditions = append(e.Status.Conditions, edsv1.ExtendedDaemonSetCondition{Type: edsv1.ConditionTypeEDSCanaryPaused, Status: "True", Reason: "CrashLoopBackOff"})
			case "false":
				e.Status.Conditions = append(e.Status.Conditions, edsv1.ExtendedDaemonSetCondition{Type: edsv1.ConditionTypeEDSCanaryPaused, Status: "False"})
			case "falseReason":
				e.Status.Conditions = append(e.Status.Conditions, edsv1.ExtendedDaemonSetCondition{Type: edsv1.ConditionTypeEDSCanaryPaused, Status: "False", Reason: "CrashLoopBackOff"})
			}
			// the gauges mirror status.state (itself a function of the annotations, C08/C14)
			e.Status.State = edsv1.ExtendedDaemonSetStatusStateRunning
			if v.Flags["ruPaused"] {
				e.Status.State = edsv1.ExtendedDaemonSetStatusStateRollingUpdatePaused
			}
			if v.Flags["frozen"] {
				e.Status.State = edsv1.ExtendedDaemonSetStatusStateRolloutFrozen
			}
			fams, obj = edsctrl.VerifMetricFamilies(), e
		} else {
			r := &edsv1.ExtendedDaemonSetReplicaSet{ObjectMeta: meta}
			r.Status.Desired, r.Status.Current, r.Status.Ready = int32(v.Status["desired"]), int32(v.Status["current"]), int32(v.Status["ready"])
			r.Status.Available, r.Status.IgnoredUnresponsiveNodes = int32(v.Status["available"]), int32(v.Status["ignored"])
			switch {
			case v.Flags["failed"] || v.CPaused == "true":
				r.Status.Conditions = append(r.Status.Conditions, edsv1.ExtendedDaemonSetReplicaSetCondition{Type: edsv1.ConditionTypeCanaryFailed, Status: "True"})
			case v.CPaused == "false":
				r.Status.Conditions = append(r.Status.Conditions, edsv1.ExtendedDaemonSetReplicaSetCondition{Type: edsv1.ConditionTypeCanaryFailed, Status: "False", Reason: "Manually failed"})
			}
			fams, obj = ersctrl.VerifMetricFamilies(), r
		}
		for _, f := range fams {
			fam := f.GenerateFunc(obj)
			if fam == nil || len(fam.Metrics) == 0 {
				continue
			}
			vals[f.Name] = fam.Metrics[0].Value
			if strings.HasSuffix(f.Name, "_labels") {
				lkeys, lvals = fam.Metrics[0].LabelKeys, fam.Metrics[0].LabelValues
			}
		}
	})
	out["panic"] = p
	iv := map[string]int{}
	for k, x := range vals {
		iv[k] = int(x)
	}
	out["values"] = iv
	if lkeys == nil {
		lkeys, lvals = []string{}, []string{}
	}
	out["labelKeys"], out["labelValues"] = lkeys, lvals
	return out
}
