package sim

import (
	"context"
	"fmt"
	"crypto/md5"
	"encoding/hex"
	"sort"
	"strconv"
	"strings"
	"time"

	corev1 "k8s.io/api/core/v1"
	"k8s.io/apimachinery/pkg/api/resource"
	metav1 "k8s.io/apimachinery/pkg/apis/meta/v1"
	"k8s.io/apimachinery/pkg/util/intstr"

	edsv1 "github.com/DataDog/extendeddaemonset/api/v1alpha1"
)

// Resource classes used by templates, node override annotations and settings.
var resClasses = map[string]corev1.ResourceRequirements{
	"r1": {Requests: corev1.ResourceList{corev1.ResourceCPU: resource.MustParse("100m")}},
	"r2": {Requests: corev1.ResourceList{corev1.ResourceCPU: resource.MustParse("200m")}},
	"r3": {Requests: corev1.ResourceList{corev1.ResourceCPU: resource.MustParse("300m")}, Limits: corev1.ResourceList{corev1.ResourceCPU: resource.MustParse("600m")}},
}

func resClassOf(r corev1.ResourceRequirements) string {
	if len(r.Requests) == 0 && len(r.Limits) == 0 {
		return "tmpl"
	}
	for k, v := range resClasses {
		if jsonEqual(v, r) {
			return k
		}
	}
	return "other"
}

// ResClassJSON returns the JSON annotation value of a resource class.
func ResClassJSON(class string) string {
	switch class {
	case "r1":
		return `{"requests":{"cpu":"100m"}}`
	case "r2":
		return `{"requests":{"cpu":"200m"}}`
	case "r3":
		return `{"requests":{"cpu":"300m"},"limits":{"cpu":"600m"}}`
	case "bad":
		return `{"requests":`
	}
	return ""
}

var ersCondTypes = []edsv1.ExtendedDaemonSetReplicaSetConditionType{
	edsv1.ConditionTypeActive, edsv1.ConditionTypeCanary, edsv1.ConditionTypeCanaryPaused, edsv1.ConditionTypeCanaryFailed,
	edsv1.ConditionTypePodRestarting, edsv1.ConditionTypePodCannotStart, edsv1.ConditionTypeLastFullSync,
	edsv1.ConditionTypePodCreation, edsv1.ConditionTypePodDeletion, edsv1.ConditionTypeReconcileError,
	edsv1.ConditionTypePodsCleanupDone, edsv1.ConditionTypeRollingUpdatePaused, edsv1.ConditionTypeRolloutFrozen,
	edsv1.ConditionTypeUnschedule,
}

func condName(t string) string {
	return strings.ReplaceAll(t, "-", "")
}

func intstrS(v *intstr.IntOrString) IntPct {
	if v == nil {
		return IntPct{}
	}
	if v.Type == intstr.Int {
		return IntPct{V: int(v.IntVal), Set: true}
	}
	s := v.StrVal
	if !strings.HasSuffix(s, "%") {
		return IntPct{Set: true, Bad: true}
	}
	n, err := strconv.Atoi(strings.TrimSuffix(s, "%"))
	if err != nil {
		return IntPct{Set: true, Bad: true, Pct: true}
	}
	return IntPct{V: n, Pct: true, Set: true}
}

func durUnits(d *metav1.Duration) int {
	if d == nil {
		return -1
	}
	return int(d.Duration / Unit)
}

func stdTolerations(p *corev1.Pod) bool {
	need := map[string]corev1.TaintEffect{
		"node.kubernetes.io/not-ready":           corev1.TaintEffectNoExecute,
		"node.kubernetes.io/unreachable":         corev1.TaintEffectNoExecute,
		"node.kubernetes.io/disk-pressure":       corev1.TaintEffectNoSchedule,
		"node.kubernetes.io/memory-pressure":     corev1.TaintEffectNoSchedule,
		"node.kubernetes.io/unschedulable":       corev1.TaintEffectNoSchedule,
		"node.kubernetes.io/network-unavailable": corev1.TaintEffectNoSchedule,
	}
	for k, eff := range need {
		ok := false
		for _, t := range p.Spec.Tolerations {
			if t.Key == k && t.Operator == corev1.TolerationOpExists && t.Effect == eff && t.TolerationSeconds == nil {
				ok = true
			}
		}
		if !ok {
			return false
		}
	}
	return true
}

// pinInfo says how the pod is bound to its node.
func pinInfo(p *corev1.Pod) (string, bool) {
	if p.Spec.NodeName != "" && (p.Spec.Affinity == nil || podAffinityNode(p) == "") {
		return "nodeName", true
	}
	if p.Spec.Affinity == nil || p.Spec.Affinity.NodeAffinity == nil || p.Spec.Affinity.NodeAffinity.RequiredDuringSchedulingIgnoredDuringExecution == nil {
		if p.Spec.NodeName != "" {
			return "nodeName", true
		}
		return "none", false
	}
	terms := p.Spec.Affinity.NodeAffinity.RequiredDuringSchedulingIgnoredDuringExecution.NodeSelectorTerms
	all := len(terms) > 0
	node := ""
	for _, t := range terms {
		found := false
		for _, f := range t.MatchFields {
			if f.Key == "metadata.name" && f.Operator == corev1.NodeSelectorOpIn && len(f.Values) == 1 {
				if node == "" {
					node = f.Values[0]
				}
				if f.Values[0] == node {
					found = true
				}
			}
		}
		if !found {
			all = false
		}
	}
	if node == "" {
		if p.Spec.NodeName != "" {
			return "nodeName", true
		}
		return "none", false
	}
	return "affinity", all
}

func podAffinityNode(p *corev1.Pod) string {
	cp := p.DeepCopy()
	cp.Spec.NodeName = ""
	return podNode(cp)
}

func waitingClass(p *corev1.Pod) string {
	cannot := map[string]bool{"ErrImagePull": true, "ImagePullBackOff": true, "ImageInspectError": true, "ErrImageNeverPull": true,
		"RegistryUnavailable": true, "InvalidImageName": true, "CreateContainerConfigError": true, "CreateContainerError": true,
		"PreStartHookError": true, "PostStartHookError": true, "PreCreateHookError": true}
	out := "none"
	for _, s := range p.Status.ContainerStatuses {
		if s.State.Waiting != nil {
			switch {
			case cannot[s.State.Waiting.Reason]:
				return "cannotStart"
			case s.State.Waiting.Reason == "ContainerCreating":
				out = "creating"
			default:
				if out == "none" {
					out = "other"
				}
			}
		}
	}
	return out
}

func (c *Cluster) condS(conds []edsv1.ExtendedDaemonSetReplicaSetCondition, t edsv1.ExtendedDaemonSetReplicaSetConditionType, now time.Time) CondS {
	for _, x := range conds {
		if x.Type == t {
			return CondS{Present: true, True: x.Status == corev1.ConditionTrue, LTT: ageUnits(x.LastTransitionTime, now), LUT: ageUnits(x.LastUpdateTime, now), Reason: x.Reason}
		}
	}
	return CondS{LTT: -1, LUT: -1}
}

func edsCondS(conds []edsv1.ExtendedDaemonSetCondition, t edsv1.ExtendedDaemonSetConditionType, now time.Time) CondS {
	for _, x := range conds {
		if x.Type == t {
			return CondS{Present: true, True: x.Status == corev1.ConditionTrue, LTT: ageUnits(x.LastTransitionTime, now), LUT: ageUnits(x.LastUpdateTime, now), Reason: x.Reason}
		}
	}
	return CondS{LTT: -1, LUT: -1}
}

// nodeOverrideHash is the harness' own version of the node-annotation hash: md5 over the sorted key=value list
// of the resource annotations addressed to EDS ns/name ("" when there is none).
func nodeOverrideHash(ns, name string, ann map[string]string) string {
	prefix := fmt.Sprintf("resources.extendeddaemonset.datadoghq.com/%s.%s.", ns, name)
	var kv []string
	for k, v := range ann {
		if strings.HasPrefix(k, prefix) {
			kv = append(kv, k+"="+v)
		}
	}
	if len(kv) == 0 {
		return ""
	}
	sort.Strings(kv)
	h := md5.New()
	for _, x := range kv {
		h.Write([]byte(x))
	}
	return hex.EncodeToString(h.Sum(nil))
}

// Project computes the abstract state of the store.
func (c *Cluster) Project() State {
	ctx := context.Background()
	now := time.Now()
	st := State{Now: c.VNow, Nodes: []NodeS{}, Pods: []PodS{}, RS: []RSS{}, EDS: []EDSS{}, Settings: []SettingS{}, PTmpl: []PTmplS{}}
	c.mu.Lock()
	defer c.mu.Unlock()

	var nodes corev1.NodeList
	_ = c.base.List(ctx, &nodes)
	nodeByName := map[string]*corev1.Node{}
	for i := range nodes.Items {
		n := &nodes.Items[i]
		nodeByName[n.Name] = n
		ns := NodeS{Name: n.Name, Fits: []string{}, CSel: n.Labels[CanaryNodeLabel] == "yes", Zone: n.Labels[ZoneLabel], SLabel: n.Labels[GroupLabel], Override: "none"}
		for _, t := range n.Spec.Taints {
			if t.Key == TaintKey {
				ns.Taint = true
			}
		}
		var ids []string
		for id := range c.Templates {
			ids = append(ids, id)
		}
		sort.Strings(ids)
		for _, id := range ids {
			if n.Labels[FitLabelPrefix+id] == "yes" && !ns.Taint {
				ns.Fits = append(ns.Fits, id)
			}
		}
		ns.Override2 = "none"
		for k, v := range n.Annotations {
			if strings.HasPrefix(k, "resources.extendeddaemonset.datadoghq.com/") {
				cls := "other"
				for _, cl := range []string{"r1", "r2", "r3", "bad"} {
					if v == ResClassJSON(cl) {
						cls = cl
					}
				}
				if strings.HasSuffix(k, "."+SideContainer) {
					ns.Override2 = cls
				} else {
					ns.Override = cls
				}
			}
		}
		st.Nodes = append(st.Nodes, ns)
	}
	sort.Slice(st.Nodes, func(i, j int) bool { return st.Nodes[i].Name < st.Nodes[j].Name })

	var rsl edsv1.ExtendedDaemonSetReplicaSetList
	_ = c.base.List(ctx, &rsl)
	for i := range rsl.Items {
		r := &rsl.Items[i]
		s := RSS{ID: c.rsIDs[r.Namespace+"/"+r.Name], NS: r.Namespace, Name: r.Name, EDS: r.Labels[edsv1.ExtendedDaemonSetNameLabelKey],
			Tmpl: c.identOfTemplate(&r.Spec.Template), HashAnn: c.identOfHash(r.Annotations[edsv1.MD5ExtendedDaemonSetAnnotationKey]),
			Gen: c.identOfHash(r.Spec.TemplateGeneration), Age: ageUnits(r.CreationTimestamp, now), Deleting: r.DeletionTimestamp != nil,
			Status: r.Status.Status, Desired: int(r.Status.Desired), Current: int(r.Status.Current), Ready: int(r.Status.Ready),
			Available: int(r.Status.Available), Ignored: int(r.Status.IgnoredUnresponsiveNodes), Conds: map[string]CondS{}}
		for _, o := range r.OwnerReferences {
			if o.Kind == "ExtendedDaemonSet" && o.Controller != nil && *o.Controller {
				s.Owner = r.Namespace + "/" + o.Name
			}
		}
		for _, t := range ersCondTypes {
			s.Conds[condName(string(t))] = c.condS(r.Status.Conditions, t, now)
		}
		st.RS = append(st.RS, s)
	}
	sort.Slice(st.RS, func(i, j int) bool { return st.RS[i].ID < st.RS[j].ID })

	var edsl edsv1.ExtendedDaemonSetList
	_ = c.base.List(ctx, &edsl)
	for i := range edsl.Items {
		e := &edsl.Items[i]
		s := EDSS{Key: e.Namespace + "/" + e.Name, NS: e.Namespace, Name: e.Name, Defaulted: edsv1.IsDefaultedExtendedDaemonSet(e),
			Tmpl: c.identOfTemplate(&e.Spec.Template), CNodes: []string{}}
		ru := e.Spec.Strategy.RollingUpdate
		s.Strat = StratS{MaxUnavailable: intstrS(ru.MaxUnavailable), MaxSchedFailure: intstrS(ru.MaxPodSchedulerFailure), SlowStartIncrease: intstrS(ru.SlowStartAdditiveIncrease),
			SlowStartInterval: durUnits(ru.SlowStartIntervalDuration), Frequency: durUnits(e.Spec.Strategy.ReconcileFrequency), MaxParallel: -1,
			CDuration: -1, CNoRestarts: -1, APMaxSlowStart: -1, AFMaxRestartsDur: -1, AFTimeout: -1, APMaxRestarts: -1, AFMaxRestarts: -1}
		if ru.MaxParallelPodCreation != nil {
			s.Strat.MaxParallel = int(*ru.MaxParallelPodCreation)
		}
		if cn := e.Spec.Strategy.Canary; cn != nil {
			s.Strat.Canary = true
			s.Strat.CReplicas = intstrS(cn.Replicas)
			s.Strat.CDuration = durUnits(cn.Duration)
			s.Strat.CNoRestarts = durUnits(cn.NoRestartsDuration)
			s.Strat.CMode = string(cn.ValidationMode)
			s.Strat.CAntiAffinity = len(cn.NodeAntiAffinityKeys) > 0
			s.Strat.CSelector = cn.NodeSelector != nil && cn.NodeSelector.MatchLabels[CanaryNodeLabel] == "yes"
			if cn.AutoPause != nil {
				s.Strat.APEnabled = cn.AutoPause.Enabled != nil && *cn.AutoPause.Enabled
				if cn.AutoPause.MaxRestarts != nil {
					s.Strat.APMaxRestarts = int(*cn.AutoPause.MaxRestarts)
				}
				s.Strat.APMaxSlowStart = durUnits(cn.AutoPause.MaxSlowStartDuration)
			}
			if cn.AutoFail != nil {
				s.Strat.AFEnabled = cn.AutoFail.Enabled != nil && *cn.AutoFail.Enabled
				if cn.AutoFail.MaxRestarts != nil {
					s.Strat.AFMaxRestarts = int(*cn.AutoFail.MaxRestarts)
				}
				s.Strat.AFMaxRestartsDur = durUnits(cn.AutoFail.MaxRestartsDuration)
				s.Strat.AFTimeout = durUnits(cn.AutoFail.CanaryTimeout)
			}
		}
		a := e.Annotations
		s.RUPaused = a[edsv1.ExtendedDaemonSetRollingUpdatePausedAnnotationKey] == "true"
		s.Frozen = a[edsv1.ExtendedDaemonSetRolloutFrozenAnnotationKey] == "true"
		s.CPaused = a[edsv1.ExtendedDaemonSetCanaryPausedAnnotationKey] == "true"
		s.CUnpaused = a[edsv1.ExtendedDaemonSetCanaryUnpausedAnnotationKey] == "true"
		if v, ok := a[edsv1.ExtendedDaemonSetCanaryValidAnnotationKey]; ok {
			if id, ok2 := c.rsIDs[e.Namespace+"/"+v]; ok2 {
				s.CValid = id
			} else {
				s.CValid = -1
			}
		}
		s.OldDS = a[edsv1.ExtendedDaemonSetOldDaemonsetAnnotationKey]
		s.ActiveName = e.Status.ActiveReplicaSet
		if e.Status.ActiveReplicaSet != "" {
			s.Active = -1
			if id, ok := c.rsIDs[e.Namespace+"/"+e.Status.ActiveReplicaSet]; ok {
				for _, r := range st.RS {
					if r.ID == id {
						s.Active = id
					}
				}
			}
		}
		if e.Status.Canary != nil {
			s.HasCanary = true
			s.CanaryRS = c.rsIDs[e.Namespace+"/"+e.Status.Canary.ReplicaSet]
			s.CNodes = append(s.CNodes, e.Status.Canary.Nodes...)
		}
		s.State, s.Reason = string(e.Status.State), string(e.Status.Reason)
		s.Desired, s.Current, s.Ready, s.Available = int(e.Status.Desired), int(e.Status.Current), int(e.Status.Ready), int(e.Status.Available)
		s.UpToDate, s.Ignored = int(e.Status.UpToDate), int(e.Status.IgnoredUnresponsiveNodes)
		s.CondPaused = edsCondS(e.Status.Conditions, edsv1.ConditionTypeEDSCanaryPaused, now)
		s.CondFailed = edsCondS(e.Status.Conditions, edsv1.ConditionTypeEDSCanaryFailed, now)
		st.EDS = append(st.EDS, s)
	}
	sort.Slice(st.EDS, func(i, j int) bool { return st.EDS[i].Key < st.EDS[j].Key })

	var pods corev1.PodList
	_ = c.base.List(ctx, &pods)
	for i := range pods.Items {
		p := &pods.Items[i]
		key := p.Namespace + "/" + p.Name
		s := PodS{ID: c.podIDs[key], NS: p.Namespace, Name: p.Name, Node: podNode(p), EDS: p.Labels[edsv1.ExtendedDaemonSetNameLabelKey],
			RSL: c.rsIDs[p.Namespace+"/"+p.Labels[edsv1.ExtendedDaemonSetReplicaSetNameLabelKey]],
			Hash: c.identOfHash(p.Annotations[edsv1.MD5ExtendedDaemonSetAnnotationKey]), Tol: stdTolerations(p),
			Phase: string(p.Status.Phase), Ready: podReady(p), Term: p.DeletionTimestamp != nil, Sched: p.Spec.NodeName != "",
			RestartAge: -1, StartAge: -1, Waiting: waitingClass(p), Age: ageUnits(p.CreationTimestamp, now), Foreign: c.foreign[key],
			SetLabel: p.Labels[edsv1.ExtendedDaemonSetSettingNameLabelKey], NodeHash: "ok", Owner: "none",
			Born: int(p.CreationTimestamp.Unix()-c.startUnix) + c.VNow*int(Unit/time.Second)}
		s.Pin, s.PinAll = pinInfo(p)
		for _, o := range p.OwnerReferences {
			switch o.Kind {
			case "ExtendedDaemonSetReplicaSet":
				s.Owner, s.OwnerRS, s.OwnerName = "rs", c.rsIDs[p.Namespace+"/"+o.Name], o.Name
			case "DaemonSet":
				s.Owner, s.OwnerName = "ds", o.Name
			default:
				s.Owner, s.OwnerName = "other", o.Name
			}
		}
		_, s.CLabel = p.Labels[edsv1.ExtendedDaemonSetReplicaSetCanaryLabelKey]
		s.Res, s.Res2 = "tmpl", "tmpl"
		for _, ct := range p.Spec.Containers {
			if ct.Name == MainContainer {
				s.Res = resClassOf(ct.Resources)
			}
			if ct.Name == SideContainer {
				s.Res2 = resClassOf(ct.Resources)
			}
		}
		if n, ok := nodeByName[s.Node]; ok && s.EDS != "" {
			want := nodeOverrideHash(p.Namespace, s.EDS, n.Annotations)
			if p.Annotations[edsv1.MD5NodeExtendedDaemonSetAnnotationKey] != want {
				s.NodeHash = "stale"
			}
		}
		for _, cs := range p.Status.ContainerStatuses {
			if int(cs.RestartCount) > s.Restarts {
				s.Restarts = int(cs.RestartCount)
			}
			if cs.LastTerminationState.Terminated != nil {
				a := ageUnits(cs.LastTerminationState.Terminated.FinishedAt, now)
				if s.RestartAge == -1 || a < s.RestartAge {
					s.RestartAge = a
				}
			}
		}
		if p.Status.StartTime != nil {
			s.StartAge = ageUnits(*p.Status.StartTime, now)
		}
		// stuck as HasPodSchedulerIssue defines it
		if p.Spec.NodeName == "" && p.CreationTimestamp.Add(10*time.Minute).Before(now) {
			s.Stuck = true
		}
		if p.DeletionTimestamp != nil && p.DeletionGracePeriodSeconds != nil && p.DeletionTimestamp.Add(time.Duration(*p.DeletionGracePeriodSeconds)*time.Second).Before(now) {
			s.Stuck = true
		}
		st.Pods = append(st.Pods, s)
	}
	sort.Slice(st.Pods, func(i, j int) bool { return st.Pods[i].ID < st.Pods[j].ID })

	var sets edsv1.ExtendedDaemonsetSettingList
	_ = c.base.List(ctx, &sets)
	for i := range sets.Items {
		x := &sets.Items[i]
		s := SettingS{NS: x.Namespace, Name: x.Name, Age: ageUnits(x.CreationTimestamp, now), Status: string(x.Status.Status),
			Born: int(x.CreationTimestamp.Unix()-c.startUnix) + c.VNow*int(Unit/time.Second)}
		if x.Spec.Reference != nil {
			s.Ref = x.Spec.Reference.Name
		}
		s.Sel = x.Spec.NodeSelector.MatchLabels[GroupLabel]
		for _, e := range x.Spec.NodeSelector.MatchExpressions {
			if e.Key == GroupLabel && len(e.Values) >= 1 && e.Operator == metav1.LabelSelectorOpIn {
				vs := append([]string{}, e.Values...)
				sort.Strings(vs)
				s.Sel = strings.Join(vs, "+")
			}
		}
		s.Sels = []string{}
		if s.Sel != "" {
			s.Sels = strings.Split(s.Sel, "+")
		}
		s.Res = "tmpl"
		for _, ct := range x.Spec.Containers {
			if ct.Name == MainContainer {
				s.Res = resClassOf(ct.Resources)
			}
		}
		switch {
		case x.Status.Error == "":
		case strings.Contains(x.Status.Error, "invalid node selector"):
			s.Err = "selector"
		case strings.Contains(x.Status.Error, "conflict"):
			s.Err = "conflict"
		case strings.Contains(x.Status.Error, "missing"):
			s.Err = "missing"
		default:
			s.Err = "other"
		}
		st.Settings = append(st.Settings, s)
	}
	sort.Slice(st.Settings, func(i, j int) bool { return st.Settings[i].NS+"/"+st.Settings[i].Name < st.Settings[j].NS+"/"+st.Settings[j].Name })

	var pts corev1.PodTemplateList
	_ = c.base.List(ctx, &pts)
	for i := range pts.Items {
		x := &pts.Items[i]
		st.PTmpl = append(st.PTmpl, PTmplS{NS: x.Namespace, Name: x.Name, Tmpl: c.identOfTemplate(&x.Template),
			Hash: c.identOfHash(x.Annotations[edsv1.MD5ExtendedDaemonSetAnnotationKey]), Owner: ownerString(x)})
	}
	sort.Slice(st.PTmpl, func(i, j int) bool { return st.PTmpl[i].NS+"/"+st.PTmpl[i].Name < st.PTmpl[j].NS+"/"+st.PTmpl[j].Name })
	return st
}
