package sim

import (
	"fmt"
	"io"
)

// CLIArgs are the common flags of edsim subcommands.
type CLIArgs struct {
	Out   string
	Seed  int64
	N     int
	Steps int
	In    string
	Tier  string
}

// Subcommands is the registry of edsim subcommands.
var Subcommands = map[string]func(CLIArgs) int{}

// Smoke runs a first deployment + rolling update and prints a summary.
func Smoke(w io.Writer) {
	d := NewDriver(Options{}, w)
	d.Strategy["ns1/foo"] = StrategyConfig{MaxUnavailable: "1", Frequency: 1, SlowStartInterval: 1, SlowStartIncrease: "5"}
	d.Reset(Options{}, "smoke")
	d.Strategy["ns1/foo"] = StrategyConfig{MaxUnavailable: "1", Frequency: 1, SlowStartInterval: 1, SlowStartIncrease: "5"}
	for _, n := range []string{"n1", "n2", "n3"} {
		d.Apply(Action{Op: "NodeAdd", N: n, V: "A,B,C", W: "c;z=z1"})
	}
	d.Apply(Action{Op: "CreateEDS", Key: "ns1/foo", T: "A"})
	r, q := d.Converge(20)
	fmt.Fprintln(w, "##", r, q)
	d.Apply(Action{Op: "SetTemplate", Key: "ns1/foo", T: "B"})
	r, q = d.Converge(30)
	fmt.Fprintln(w, "##", r, q)
	d.Flush()
}
