package sim

import (
	"bufio"
	"encoding/json"
	"fmt"
	"os"
	"strconv"
	"strings"

	edsv1 "github.com/DataDog/extendeddaemonset/api/v1alpha1"
)

// ---- binding B2: schedules taken from TLC's simulation of spec/Cluster.tla are replayed into the real reconcilers.

// ScheduleFile is the input of `edsim schedules`: the configuration the model was run with and the label sequences.
type ScheduleFile struct {
	Config    string     `json:"config"` // rollout | canary | settings
	Nodes     []string   `json:"nodes"`
	Tmpls     []string   `json:"tmpls"`
	Schedules [][]string `json:"schedules"`
}

func modelStrategy(cfg string) StrategyConfig {
	switch cfg {
	case "canary":
		// MC_canary.CanStrat
		s := BaseStrategy()
		s.Canary, s.CReplicas, s.CDuration, s.CNoRestarts, s.CMode = true, "1", 2, 1, "auto"
		s.APEnabled, s.APMaxRestarts, s.AFEnabled, s.AFMaxRestarts = bp(true), 0, bp(true), 1
		return s
	}
	return BaseStrategy()
}

func runSchedules(a CLIArgs) int {
	raw, err := os.ReadFile(a.In)
	if err != nil {
		fmt.Fprintln(os.Stderr, err)
		return 2
	}
	var sf ScheduleFile
	if err := json.Unmarshal(raw, &sf); err != nil {
		fmt.Fprintln(os.Stderr, err)
		return 2
	}
	f, err := os.Create(a.Out)
	if err != nil {
		fmt.Fprintln(os.Stderr, err)
		return 2
	}
	defer f.Close()
	w := bufio.NewWriter(f)
	d := NewDriver(Options{}, w)
	labels, skipped := 0, 0
	for si, sch := range sf.Schedules {
		d.Reset(Options{}, fmt.Sprintf("schedule-%s-%d", sf.Config, si))
		sc := modelStrategy(sf.Config)
		if sf.Config == "canary" {
			// thresholds 0 / 1 cannot be expressed through StrategyConfig's "0 = leave to default": set them after building
			sc.APMaxRestarts, sc.AFMaxRestarts = 0, 0
		}
		d.Strategy[Key] = sc
		if sf.Config == "multi" {
			replayMulti(d, sf, si, sch, &labels, &skipped)
			d.Converge(60)
			continue
		}
		if sf.Config == "settings" {
			// behaviours of spec/SettingsSys.tla: the first label carries the initial node groups
			replaySettings(d, sf, sch, &labels, &skipped)
			d.Converge(30)
			continue
		}
		for _, n := range sf.Nodes {
			d.Apply(Action{Op: "NodeAdd", N: n, V: strings.Join(sf.Tmpls, ","), W: "c;z=z1"})
		}
		if sf.Config == "migration" {
			// every node starts with a ready pod of the DaemonSet "old"; the ExtendedDaemonSet declares the migration
			d.Apply(Action{Op: "CreateDaemonSet", Key: Key, V: "old"})
			for _, n := range sf.Nodes {
				d.Apply(Action{Op: "ForeignPod", Key: Key, N: n, V: "ds", W: "old"})
			}
			d.Apply(Action{Op: "KRound"})
		}
		d.Apply(Action{Op: "CreateEDS", Key: Key, T: sf.Tmpls[0]})
		if sf.Config == "migration" {
			d.Apply(Action{Op: "SetAnnotation", Key: Key, V: "old-ds", W: "old"})
		}
		if sf.Config == "canary" {
			_ = d.C.MutateEDS("ns1", "foo", func(e *edsv1.ExtendedDaemonSet) {
				zero, one := int32(0), int32(1)
				e.Spec.Strategy.Canary.AutoPause.MaxRestarts = &zero
				e.Spec.Strategy.Canary.AutoFail.MaxRestarts = &one
			})
		}
		for _, lab := range sch {
			labels++
			act, ok := labelToAction(d, sf, Key, lab)
			if !ok {
				skipped++
				continue
			}
			if _, ok := d.Apply(act); !ok {
				skipped++
			}
		}
		Scn{D: d}.Unpause()
		d.Converge(60)
	}
	d.Flush()
	fmt.Printf("{\"schedules\":%d,\"labels\":%d,\"skipped\":%d,\"events\":%d}\n", len(sf.Schedules), labels, skipped, d.NEvents)
	return 0
}

// labelToAction maps a label of the model's action vocabulary to a harness action on the ExtendedDaemonSet `key`.
func labelToAction(d *Driver, sf ScheduleFile, key, lab string) (Action, bool) {
	p := strings.Split(lab, ":")
	ns, name := splitKey(key)
	var act Action
	num := func(i int) int {
		if len(p) > i {
			n, _ := strconv.Atoi(p[i])
			return n
		}
		return 0
	}
	str := func(i int) string {
		if len(p) > i {
			return p[i]
		}
		return ""
	}
	switch p[0] {
	case "EDSReconcile":
		act = Action{Op: "EDSReconcile", Key: key}
	case "ERSReconcile":
		i := num(1)
		if i < 1 || i > len(sf.Tmpls) {
			return act, false
		}
		act = Action{Op: "ERSReconcile", Key: key, T: sf.Tmpls[i-1]}
	case "Tick":
		act = Action{Op: "Tick", V: "1"}
	case "KReady", "KFinish", "KUnready", "KFail", "KRestart", "KLost":
		act = Action{Op: p[0], N: str(1), I: num(2), V: "Error"}
		if key != Key || sf.Config == "multi" {
			// several ExtendedDaemonSets: the k-th pod of THIS one on the node
			act.Key = key
		}
	case "ForeignPod":
		act = Action{Op: "ForeignPod", Key: key, N: str(1), V: "dup"}
	case "NodeRemove":
		act = Action{Op: "NodeRemove", N: str(1)}
	case "NodeAdd":
		act = Action{Op: "NodeAdd", N: str(1), V: strings.Join(sf.Tmpls, ","), W: "c;z=z1"}
	case "NodeSetFits":
		var fits []string
		for _, c := range str(2) {
			fits = append(fits, string(c))
		}
		act = Action{Op: "NodeSetFits", N: str(1), V: strings.Join(fits, ",")}
	case "SetTemplate":
		act = Action{Op: "SetTemplate", Key: key, T: str(1)}
	case "Toggle":
		short := map[string]string{"ruPaused": "ru-paused", "frozen": "frozen"}[str(1)]
		e, err := d.C.GetEDS(ns, name)
		if err != nil || short == "" {
			return act, false
		}
		v := "true"
		if e.Annotations[AnnotationKey(short)] == "true" {
			v = "false"
		}
		act = Action{Op: "SetAnnotation", Key: key, V: short, W: v}
	case "CmdValidate":
		act = Action{Op: "Cmd", Key: key, V: "canary-validate"}
	case "CmdPause":
		act = Action{Op: "Cmd", Key: key, V: "canary-pause"}
	case "CmdUnpause":
		act = Action{Op: "Cmd", Key: key, V: "canary-unpause"}
	case "CmdFail":
		act = Action{Op: "Cmd", Key: key, V: "canary-fail"}
	default:
		return act, false
	}
	return act, true
}

// replayMulti replays one behaviour of spec/Multi.tla (two ExtendedDaemonSets sharing the nodes): labels are "A|..." / "B|...".
// Even schedules place B in another namespace under the same name, odd ones in the same namespace under another name.
func replayMulti(d *Driver, sf ScheduleFile, si int, sch []string, labels, skipped *int) {
	keys := map[string]string{"A": Key, "B": "ns2/foo"}
	if si%2 == 1 {
		keys["B"] = "ns1/bar"
	}
	for _, k := range []string{"A", "B"} {
		sc := modelStrategy("canary")
		sc.APMaxRestarts, sc.AFMaxRestarts = 0, 0
		d.Strategy[keys[k]] = sc
	}
	for _, n := range sf.Nodes {
		d.Apply(Action{Op: "NodeAdd", N: n, V: strings.Join(sf.Tmpls, ","), W: "c;z=z1"})
	}
	for _, k := range []string{"A", "B"} {
		d.Apply(Action{Op: "CreateEDS", Key: keys[k], T: sf.Tmpls[0]})
		ns, name := splitKey(keys[k])
		_ = d.C.MutateEDS(ns, name, func(e *edsv1.ExtendedDaemonSet) {
			zero, one := int32(0), int32(1)
			e.Spec.Strategy.Canary.AutoPause.MaxRestarts = &zero
			e.Spec.Strategy.Canary.AutoFail.MaxRestarts = &one
		})
	}
	for _, lab := range sch {
		*labels++
		parts := strings.SplitN(lab, "|", 2)
		if len(parts) != 2 || keys[parts[0]] == "" {
			*skipped++
			continue
		}
		act, ok := labelToAction(d, sf, keys[parts[0]], parts[1])
		if !ok {
			*skipped++
			continue
		}
		if _, ok := d.Apply(act); !ok {
			*skipped++
		}
	}
	// what Scn.Unpause does, for both objects (recorded actions: the trace must account for every change of the store)
	for _, k := range []string{"A", "B"} {
		for _, a := range [][2]string{{"ru-paused", ""}, {"frozen", ""}, {"c-paused", "false"}, {"c-unpaused", "true"}} {
			d.Apply(Action{Op: "SetAnnotation", Key: keys[k], V: a[0], W: a[1]})
		}
	}
}

// replaySettings replays one behaviour of spec/SettingsSys.tla: settings are created / deleted / reconciled, nodes relabelled,
// the clock ticks and the replica set of ExtendedDaemonSet foo syncs, in the order the model chose.
func replaySettings(d *Driver, sf ScheduleFile, sch []string, labels, skipped *int) {
	res := map[string]string{"s1": "r1", "s2": "r2", "s3": "r3"}
	for li, lab := range sch {
		*labels++
		p := strings.Split(lab, ":")
		var act Action
		switch p[0] {
		case "Init":
			if li != 0 {
				*skipped++
				continue
			}
			for _, kv := range p[1:] {
				ng := strings.SplitN(kv, "=", 2)
				d.Apply(Action{Op: "NodeAdd", N: ng[0], V: strings.Join(sf.Tmpls, ","), W: "c;z=z1"})
				if len(ng) == 2 && ng[1] != "" {
					d.Apply(Action{Op: "NodeGroup", N: ng[0], V: ng[1]})
				}
			}
			d.Apply(Action{Op: "CreateEDS", Key: Key, T: sf.Tmpls[0]})
			d.Apply(Action{Op: "EDSReconcile", Key: Key}) // defaulting
			d.Apply(Action{Op: "EDSReconcile", Key: Key}) // replica set
			d.Apply(Action{Op: "EDSReconcile", Key: Key}) // active
			continue
		case "CreateSetting":
			// CreateSetting:<name>:<ref>:<group>  ("" group = unusable selector)
			for len(p) < 4 {
				p = append(p, "")
			}
			sel := p[3]
			if sel == "" {
				sel = "!bad"
			}
			expr := ""
			if p[1] == "s2" {
				expr = "expr"
			}
			act = Action{Op: "CreateSetting", Key: Key, V: p[1], W: p[2] + "|" + sel + "|" + res[p[1]] + "|" + expr, I: 0}
		case "DeleteSetting":
			act = Action{Op: "DeleteSetting", Key: Key, V: p[1]}
		case "NodeGroup":
			for len(p) < 3 {
				p = append(p, "")
			}
			act = Action{Op: "NodeGroup", N: p[1], V: p[2]}
		case "Tick":
			act = Action{Op: "Tick", V: "1"}
		case "SettingReconcile":
			act = Action{Op: "SettingReconcile", Key: "ns1/" + p[1]}
		case "SettingsDone":
			act = Action{Op: "Mark", V: "SettingsDone"}
		case "ERSReconcile":
			act = Action{Op: "ERSReconcile", Key: Key, T: sf.Tmpls[0]}
		default:
			*skipped++
			continue
		}
		if _, ok := d.Apply(act); !ok {
			*skipped++
		}
	}
}

func init() {
	Subcommands["schedules"] = runSchedules
}
