package sim

import (
	"context"
	"crypto/md5"
	"encoding/hex"
	"encoding/json"
	"errors"
	"fmt"
	"sort"
	"strings"
	"sync"
	"time"

	"github.com/go-logr/logr"
	appsv1 "k8s.io/api/apps/v1"
	corev1 "k8s.io/api/core/v1"
	apierrors "k8s.io/apimachinery/pkg/api/errors"
	"k8s.io/apimachinery/pkg/api/meta"
	metav1 "k8s.io/apimachinery/pkg/apis/meta/v1"
	"k8s.io/apimachinery/pkg/runtime"
	"k8s.io/apimachinery/pkg/runtime/schema"
	"k8s.io/apimachinery/pkg/runtime/serializer"
	"k8s.io/apimachinery/pkg/types"
	utilerrors "k8s.io/apimachinery/pkg/util/errors"
	clientgoscheme "k8s.io/client-go/kubernetes/scheme"
	clienttesting "k8s.io/client-go/testing"
	testingclock "k8s.io/utils/clock/testing"
	"sigs.k8s.io/controller-runtime/pkg/client"
	"sigs.k8s.io/controller-runtime/pkg/client/fake"
	"sigs.k8s.io/controller-runtime/pkg/client/interceptor"
	"sigs.k8s.io/controller-runtime/pkg/reconcile"

	edsv1 "github.com/DataDog/extendeddaemonset/api/v1alpha1"
	edsctrl "github.com/DataDog/extendeddaemonset/controllers/extendeddaemonset"
	ersctrl "github.com/DataDog/extendeddaemonset/controllers/extendeddaemonsetreplicaset"
	setctrl "github.com/DataDog/extendeddaemonset/controllers/extendeddaemonsetsetting"
	ptctrl "github.com/DataDog/extendeddaemonset/controllers/podtemplate"
)

// Unit is one unit of virtual time.
const Unit = 60 * time.Second

// KubeletFinalizer keeps deleted pods terminating until the kubelet model removes them.
const KubeletFinalizer = "verif.local/kubelet"

// Labels / annotations of the harness encoding.
const (
	FitLabelPrefix   = "fit-"
	CanaryNodeLabel  = "canary"
	ZoneLabel        = "zone"
	GroupLabel       = "grp"
	TaintKey         = "verif.local/blocked"
	MainContainer    = "main"
	SideContainer    = "side"
)

// FaultKind is the kind of an injected fault.
type FaultKind string

// Fault kinds.
const (
	FaultNone        FaultKind = ""
	FaultReject      FaultKind = "reject"      // call rejected, not applied
	FaultLost        FaultKind = "lost"        // call applied, answer lost
	FaultCrashBefore FaultKind = "crashBefore" // process stops before the call is applied
	FaultCrashAfter  FaultKind = "crashAfter"  // process stops after the call is applied
)

var errInjected = errors.New("verif: injected API failure")
var errCrashed = errors.New("verif: process stopped")

type nopRecorder struct{}

func (nopRecorder) Event(runtime.Object, string, string, string)                    {}
func (nopRecorder) Eventf(runtime.Object, string, string, string, ...interface{})   {}
func (nopRecorder) AnnotatedEventf(runtime.Object, map[string]string, string, string, string, ...interface{}) {
}

// Options configures a Cluster.
type Options struct {
	AffinityMode   bool // ERS reconciler option IsNodeAffinitySupported
	DefaultMode    string
	FaultOnReads   bool
}

// Cluster is the simulated cluster.
type Cluster struct {
	mu      sync.Mutex
	tickMu  sync.RWMutex // concurrent mode: API calls hold it shared, the clock / kubelet / user exclusively
	Scheme  *runtime.Scheme
	tracker clienttesting.ObjectTracker
	base    client.WithWatch // un-instrumented client used by the driver itself
	opts    Options

	actors map[string]*Actor

	VNow int // virtual now, in units
	backoffClock *testingclock.FakeClock
	startUnix int64

	podIDs  map[string]int // ns/name -> id
	rsIDs   map[string]int
	nextPod int
	nextRS  int
	foreign map[string]bool

	Templates map[string]*corev1.PodTemplateSpec // identity -> template
	tmplHash  map[string]string                  // md5 -> identity (harness' own computation)

	seq    int // global API call counter
	Faults map[int]FaultKind
	// PodFault fails pod create/delete calls of the reconcilers: "" | all | first | alt (every second call)
	PodFault    string
	podFaultCnt int
	// OnCall, when set, is called (without the mutex) before each API call of a reconciler: gate for schedules.
	OnCall func(actor string, seq int, verb, kind string)

	Events []Event
}

// Actor is one controller process (or the kubectl plugin).
type Actor struct {
	cl     *Cluster
	name   string
	Client client.WithWatch
	writes []Write
	reads  int
	dead   bool
	rec    reconcile.Reconciler
}

var (
	schemeOnce   sync.Once
	sharedScheme *runtime.Scheme
)

// NewCluster builds an empty cluster with the four reconcilers.
func NewCluster(opts Options) *Cluster {
	schemeOnce.Do(func() {
		sharedScheme = runtime.NewScheme()
		_ = clientgoscheme.AddToScheme(sharedScheme)
		_ = edsv1.AddToScheme(sharedScheme)
	})
	s := sharedScheme
	codecs := serializer.NewCodecFactory(s)
	tracker := clienttesting.NewObjectTracker(s, codecs.UniversalDecoder())
	base := fake.NewClientBuilder().WithScheme(s).WithObjectTracker(tracker).
		WithStatusSubresource(&edsv1.ExtendedDaemonSet{}, &edsv1.ExtendedDaemonSetReplicaSet{}, &edsv1.ExtendedDaemonsetSetting{}).
		Build()
	c := &Cluster{
		Scheme: s, tracker: tracker, base: base, opts: opts,
		actors: map[string]*Actor{}, podIDs: map[string]int{}, rsIDs: map[string]int{}, foreign: map[string]bool{},
		Templates: map[string]*corev1.PodTemplateSpec{}, tmplHash: map[string]string{}, Faults: map[int]FaultKind{},
		startUnix: time.Now().Unix() - 1,
	}
	for _, n := range []string{"eds", "ers", "setting", "podtemplate", "cmd"} {
		c.newActor(n)
	}
	return c
}

func (c *Cluster) newActor(name string) *Actor {
	a := &Actor{cl: c, name: name}
	a.Client = interceptor.NewClient(c.base, a.funcs())
	switch name {
	case "eds":
		mode := edsv1.ExtendedDaemonSetSpecStrategyCanaryValidationMode(c.opts.DefaultMode)
		if mode == "" {
			mode = edsv1.ExtendedDaemonSetSpecStrategyCanaryValidationModeAuto
		}
		r, _ := edsctrl.NewReconciler(edsctrl.ReconcilerOptions{DefaultValidationMode: mode}, a.Client, c.Scheme, logr.Discard(), nopRecorder{})
		a.rec = r
	case "ers":
		r, _ := ersctrl.NewReconciler(ersctrl.ReconcilerOptions{IsNodeAffinitySupported: c.opts.AffinityMode}, a.Client, c.Scheme, logr.Discard(), nopRecorder{})
		a.rec = r
		c.installBackOffClock(r)
	case "setting":
		r, _ := setctrl.NewReconciler(setctrl.ReconcilerOptions{}, a.Client, c.Scheme, logr.Discard(), nopRecorder{})
		a.rec = r
	case "podtemplate":
		r, _ := ptctrl.NewReconciler(ptctrl.ReconcilerOptions{}, a.Client, c.Scheme, logr.Discard(), nopRecorder{})
		a.rec = r
	}
	c.actors[name] = a
	return a
}

// Actor returns the named actor.
func (c *Cluster) Actor(name string) *Actor { return c.actors[name] }

// Base returns the un-instrumented client.
func (c *Cluster) Base() client.WithWatch { return c.base }

// RestartActor replaces the controller process by a fresh instance (empty in-memory state).
func (c *Cluster) RestartActor(name string) { c.newActor(name) }

// ---------- interceptor ----------

func kindOf(obj runtime.Object) string {
	switch obj.(type) {
	case *corev1.Pod, *corev1.PodList:
		return "Pod"
	case *edsv1.ExtendedDaemonSetReplicaSet, *edsv1.ExtendedDaemonSetReplicaSetList:
		return "ERS"
	case *edsv1.ExtendedDaemonSet, *edsv1.ExtendedDaemonSetList:
		return "EDS"
	case *corev1.PodTemplate:
		return "PodTemplate"
	case *edsv1.ExtendedDaemonsetSetting, *edsv1.ExtendedDaemonsetSettingList:
		return "Setting"
	case *corev1.Node, *corev1.NodeList:
		return "Node"
	case *appsv1.DaemonSet:
		return "DaemonSet"
	}
	return "Other"
}

// before is called at the start of every intercepted call; returns the fault to apply.
func (a *Actor) before(verb, kind string, isWrite bool) (int, FaultKind, error) {
	c := a.cl
	c.mu.Lock()
	c.seq++
	seq := c.seq
	dead := a.dead
	var f FaultKind
	if !dead && a.name != "cmd" && c.PodFault != "" && kind == "Pod" && (verb == "create" || verb == "delete") {
		c.podFaultCnt++
		if c.PodFault == "all" || (c.PodFault == "first" && c.podFaultCnt == 1) || (c.PodFault == "alt" && c.podFaultCnt%2 == 1) {
			f = FaultReject
		}
	}
	if !dead && a.name != "cmd" && f == FaultNone { // faults are injected into the controllers' calls, not into the user's kubectl
		if fk, ok := c.Faults[seq]; ok && (isWrite || c.opts.FaultOnReads) {
			f = fk
			if !isWrite && f != FaultReject {
				// reads can only be rejected or hit by a crash-before
				if f == FaultLost {
					f = FaultReject
				} else {
					f = FaultCrashBefore
				}
			}
		}
		if f == FaultCrashBefore {
			a.dead = true
		}
	}
	if !isWrite {
		a.reads++
	}
	gate := c.OnCall
	c.mu.Unlock()
	if dead {
		return seq, FaultNone, errCrashed
	}
	if gate != nil && a.name != "cmd" {
		gate(a.name, seq, verb, kind)
	}
	return seq, f, nil
}

func (a *Actor) record(w Write) {
	a.cl.mu.Lock()
	a.writes = append(a.writes, w)
	a.cl.mu.Unlock()
}

func (a *Actor) after(f FaultKind) {
	if f == FaultCrashAfter {
		a.cl.mu.Lock()
		a.dead = true
		a.cl.mu.Unlock()
	}
}

func (a *Actor) doWrite(verb string, obj client.Object, what string, apply func() error) error {
	a.cl.tickMu.RLock()
	defer a.cl.tickMu.RUnlock()
	kind := kindOf(obj)
	seq, f, err := a.before(verb, kind, true)
	if err != nil {
		return err
	}
	w := a.cl.describe(verb, kind, obj)
	w.Seq = seq
	w.What = what
	switch f {
	case FaultReject:
		w.Inj, w.OK = "reject", false
		a.record(w)
		return errInjected
	case FaultCrashBefore:
		w.Inj, w.OK = "crash", false
		a.record(w)
		return errCrashed
	}
	err = apply()
	w.OK = err == nil
	if verb == "create" && err == nil {
		// ids are assigned on successful creation
		w2 := a.cl.describe(verb, kind, obj)
		w.ID, w.Name = w2.ID, w2.Name
	}
	switch f {
	case FaultLost:
		w.Inj = "lost"
		a.record(w)
		return errInjected
	case FaultCrashAfter:
		w.Inj = "crash"
		a.record(w)
		a.after(f)
		return errCrashed
	}
	a.record(w)
	return err
}

func (a *Actor) doRead(verb string, obj runtime.Object, apply func() error) error {
	a.cl.tickMu.RLock()
	defer a.cl.tickMu.RUnlock()
	_, f, err := a.before(verb, kindOf(obj), false)
	if err != nil {
		return err
	}
	if f == FaultReject {
		return errInjected
	}
	if f == FaultCrashBefore {
		return errCrashed
	}
	return apply()
}

func (a *Actor) funcs() interceptor.Funcs {
	return interceptor.Funcs{
		Get: func(ctx context.Context, cl client.WithWatch, key client.ObjectKey, obj client.Object, opts ...client.GetOption) error {
			return a.doRead("get", obj, func() error { return cl.Get(ctx, key, obj, opts...) })
		},
		List: func(ctx context.Context, cl client.WithWatch, list client.ObjectList, opts ...client.ListOption) error {
			return a.doRead("list", list, func() error { return cl.List(ctx, list, opts...) })
		},
		Create: func(ctx context.Context, cl client.WithWatch, obj client.Object, opts ...client.CreateOption) error {
			return a.doWrite("create", obj, "", func() error {
				a.cl.prepareCreate(obj)
				if err := cl.Create(ctx, obj, opts...); err != nil {
					return err
				}
				a.cl.registerCreated(obj, false)
				return nil
			})
		},
		Delete: func(ctx context.Context, cl client.WithWatch, obj client.Object, opts ...client.DeleteOption) error {
			return a.doWrite("delete", obj, "", func() error { return cl.Delete(ctx, obj, opts...) })
		},
		Update: func(ctx context.Context, cl client.WithWatch, obj client.Object, opts ...client.UpdateOption) error {
			what := a.cl.diffWhat(obj)
			return a.doWrite("update", obj, what, func() error { return cl.Update(ctx, obj, opts...) })
		},
		Patch: func(ctx context.Context, cl client.WithWatch, obj client.Object, patch client.Patch, opts ...client.PatchOption) error {
			what := a.cl.diffWhat(obj)
			return a.doWrite("patch", obj, what, func() error { return cl.Patch(ctx, obj, patch, opts...) })
		},
		SubResourceUpdate: func(ctx context.Context, cl client.Client, sub string, obj client.Object, opts ...client.SubResourceUpdateOption) error {
			return a.doWrite("status", obj, sub, func() error { return cl.SubResource(sub).Update(ctx, obj, opts...) })
		},
		SubResourcePatch: func(ctx context.Context, cl client.Client, sub string, obj client.Object, patch client.Patch, opts ...client.SubResourcePatchOption) error {
			return a.doWrite("status", obj, sub, func() error { return cl.SubResource(sub).Patch(ctx, obj, patch, opts...) })
		},
		DeleteAllOf: func(ctx context.Context, cl client.WithWatch, obj client.Object, opts ...client.DeleteAllOfOption) error {
			return a.doWrite("deleteAllOf", obj, "", func() error { return cl.DeleteAllOf(ctx, obj, opts...) })
		},
	}
}

// prepareCreate stamps what a real API server would: creation time, UID; pods get the kubelet finalizer
// and a grace period so that a deleted pod stays terminating until the kubelet model finishes it.
func (c *Cluster) prepareCreate(obj client.Object) {
	if ts := obj.GetCreationTimestamp(); ts.IsZero() {
		obj.SetCreationTimestamp(metav1.NewTime(time.Now().Truncate(time.Second)))
	}
	c.mu.Lock()
	c.seq++
	uid := fmt.Sprintf("uid-%d", c.seq)
	c.mu.Unlock()
	if obj.GetUID() == "" {
		obj.SetUID(types.UID(uid))
	}
	if p, ok := obj.(*corev1.Pod); ok {
		has := false
		for _, f := range p.Finalizers {
			if f == KubeletFinalizer {
				has = true
			}
		}
		if !has {
			p.Finalizers = append(p.Finalizers, KubeletFinalizer)
		}
	}
}

func (c *Cluster) registerCreated(obj client.Object, foreign bool) {
	c.mu.Lock()
	defer c.mu.Unlock()
	key := obj.GetNamespace() + "/" + obj.GetName()
	switch obj.(type) {
	case *corev1.Pod:
		if _, ok := c.podIDs[key]; !ok {
			c.nextPod++
			c.podIDs[key] = c.nextPod
			if foreign {
				c.foreign[key] = true
			}
		}
	case *edsv1.ExtendedDaemonSetReplicaSet:
		if _, ok := c.rsIDs[key]; !ok {
			c.nextRS++
			c.rsIDs[key] = c.nextRS
		}
	}
}

// describe projects the target of a write.
func (c *Cluster) describe(verb, kind string, obj client.Object) Write {
	w := Write{Verb: verb, Kind: kind, NS: obj.GetNamespace(), Name: obj.GetName()}
	c.mu.Lock()
	defer c.mu.Unlock()
	key := w.NS + "/" + w.Name
	switch o := obj.(type) {
	case *corev1.Pod:
		w.ID = c.podIDs[key]
		w.Node = podNode(o)
		w.Hash = c.identOfHash(o.Annotations[edsv1.MD5ExtendedDaemonSetAnnotationKey])
		w.RS = c.rsIDs[w.NS+"/"+o.Labels[edsv1.ExtendedDaemonSetReplicaSetNameLabelKey]]
		w.EDS = o.Labels[edsv1.ExtendedDaemonSetNameLabelKey]
		w.Owner = ownerString(o)
		w.Ready = podReady(o)
		w.Phase = string(o.Status.Phase)
		w.Term = o.DeletionTimestamp != nil
	case *edsv1.ExtendedDaemonSetReplicaSet:
		w.ID = c.rsIDs[key]
		w.Hash = c.identOfTemplate(&o.Spec.Template)
		w.EDS = o.Labels[edsv1.ExtendedDaemonSetNameLabelKey]
		w.Owner = ownerString(o)
	case *corev1.PodTemplate:
		w.Hash = c.identOfTemplate(&o.Template)
		w.Owner = ownerString(o)
	}
	return w
}

func ownerString(o metav1.Object) string {
	for _, r := range o.GetOwnerReferences() {
		if r.Controller != nil && *r.Controller {
			return r.Kind + "/" + r.Name
		}
	}
	for _, r := range o.GetOwnerReferences() {
		return r.Kind + "/" + r.Name
	}
	return ""
}

// diffWhat says what an update/patch changes relative to the stored object (coarse, for the formulas).
func (c *Cluster) diffWhat(obj client.Object) string {
	switch o := obj.(type) {
	case *corev1.Pod:
		old := &corev1.Pod{}
		if err := c.base.Get(context.Background(), client.ObjectKeyFromObject(o), old); err != nil {
			return "?"
		}
		var parts []string
		_, had := old.Labels[edsv1.ExtendedDaemonSetReplicaSetCanaryLabelKey]
		_, has := o.Labels[edsv1.ExtendedDaemonSetReplicaSetCanaryLabelKey]
		if !had && has {
			parts = append(parts, "+clabel")
		}
		if had && !has {
			parts = append(parts, "-clabel")
		}
		oc, nc := old.DeepCopy(), o.DeepCopy()
		delete(oc.Labels, edsv1.ExtendedDaemonSetReplicaSetCanaryLabelKey)
		delete(nc.Labels, edsv1.ExtendedDaemonSetReplicaSetCanaryLabelKey)
		if !jsonEqual(oc.Labels, nc.Labels) {
			parts = append(parts, "labels")
		}
		if !jsonEqual(oc.Annotations, nc.Annotations) {
			parts = append(parts, "annotations")
		}
		if !jsonEqual(oc.Spec, nc.Spec) {
			parts = append(parts, "spec")
		}
		return strings.Join(parts, ",")
	case *edsv1.ExtendedDaemonSet:
		old := &edsv1.ExtendedDaemonSet{}
		if err := c.base.Get(context.Background(), client.ObjectKeyFromObject(o), old); err != nil {
			return "?"
		}
		var parts []string
		if !jsonEqual(old.Spec.Template, o.Spec.Template) {
			parts = append(parts, "template")
		}
		if !jsonEqual(old.Spec.Strategy, o.Spec.Strategy) {
			parts = append(parts, "strategy")
		}
		if !jsonEqual(old.Spec.Selector, o.Spec.Selector) {
			parts = append(parts, "selector")
		}
		if !jsonEqual(old.Annotations, o.Annotations) {
			for _, k := range annotationDiff(old.Annotations, o.Annotations) {
				parts = append(parts, "ann:"+k)
			}
		}
		if !jsonEqual(old.Labels, o.Labels) {
			parts = append(parts, "labels")
		}
		return strings.Join(parts, ",")
	}
	return ""
}

func annotationDiff(a, b map[string]string) []string {
	set := map[string]bool{}
	for k, v := range a {
		if w, ok := b[k]; !ok || w != v {
			set[k] = true
		}
	}
	for k, v := range b {
		if w, ok := a[k]; !ok || w != v {
			set[k] = true
		}
	}
	var out []string
	for k := range set {
		out = append(out, strings.TrimPrefix(k, "extendeddaemonset.datadoghq.com/"))
	}
	sort.Strings(out)
	return out
}

func jsonEqual(a, b interface{}) bool {
	x, _ := json.Marshal(a)
	y, _ := json.Marshal(b)
	return string(x) == string(y)
}

// ---------- templates ----------

// HashTemplate is the harness' own computation of the template hash (md5 of the JSON encoding).
func HashTemplate(t *corev1.PodTemplateSpec) string {
	b, _ := json.Marshal(t)
	s := md5.Sum(b)
	return hex.EncodeToString(s[:])
}

// AddTemplate registers template identity id.
func (c *Cluster) AddTemplate(id string, t *corev1.PodTemplateSpec) {
	c.Templates[id] = t
	c.tmplHash[HashTemplate(t)] = id
}

// StdTemplate builds the standard template of identity id: selects nodes labelled fit-<id>=yes.
func StdTemplate(id string) *corev1.PodTemplateSpec {
	if id == "D" {
		// template D is template A's shape with a namespace left in its metadata (a copied manifest): legal, and meaningless -
		// the pods belong to the namespace of their ExtendedDaemonSet whatever the template says
		t := StdTemplate("A")
		t.Namespace = "ns2"
		t.Labels["rev"], t.Annotations["checksum/config"] = "D", "cfg-D"
		t.Spec.NodeSelector = map[string]string{FitLabelPrefix + "D": "yes"}
		t.Spec.Containers[0].Image, t.Spec.Containers[1].Image = "img:D", "side:D"
		return t
	}
	if id == "C" {
		// template C expresses its node requirement as a required node affinity with two OR-ed terms (instead of a node
		// selector) and tolerates a taint nobody sets: the affinity paths of the fitness check and of the pod pinning
		// (node name added to EVERY term) are exercised wherever C is used
		req := corev1.NodeSelectorRequirement{Key: FitLabelPrefix + id, Operator: corev1.NodeSelectorOpIn, Values: []string{"yes"}}
		return &corev1.PodTemplateSpec{
			// the templates differ in their metadata too (a config checksum annotation, a revision label), not only in the pod spec
			ObjectMeta: metav1.ObjectMeta{Labels: map[string]string{"app": "agent", "rev": id}, Annotations: map[string]string{"checksum/config": "cfg-" + id}},
			Spec: corev1.PodSpec{
				Affinity: &corev1.Affinity{NodeAffinity: &corev1.NodeAffinity{RequiredDuringSchedulingIgnoredDuringExecution: &corev1.NodeSelector{
					NodeSelectorTerms: []corev1.NodeSelectorTerm{
						{MatchExpressions: []corev1.NodeSelectorRequirement{req}},
						// the second term also excludes a (non-existent) node by name: a node-name field requirement with another operator
						// than In, which the pinning has to replace, not merely re-point
						{MatchExpressions: []corev1.NodeSelectorRequirement{req, {Key: FitLabelPrefix + id, Operator: corev1.NodeSelectorOpExists}},
							MatchFields: []corev1.NodeSelectorRequirement{{Key: "metadata.name", Operator: corev1.NodeSelectorOpNotIn, Values: []string{"verif-no-such-node"}}}},
					}}}},
				// ... and one of the default DaemonSet toleration keys with another effect (it does not cover the default entry)
				Tolerations: []corev1.Toleration{{Key: "verif.local/other", Operator: corev1.TolerationOpExists, Effect: corev1.TaintEffectNoSchedule},
					{Key: "node.kubernetes.io/not-ready", Operator: corev1.TolerationOpExists, Effect: corev1.TaintEffectNoSchedule}},
				Containers:  []corev1.Container{{Name: MainContainer, Image: "img:" + id}, {Name: SideContainer, Image: "side:" + id}},
			},
		}
	}
	return &corev1.PodTemplateSpec{
		ObjectMeta: metav1.ObjectMeta{Labels: map[string]string{"app": "agent", "rev": id}, Annotations: map[string]string{"checksum/config": "cfg-" + id}},
		Spec: corev1.PodSpec{
			NodeSelector: map[string]string{FitLabelPrefix + id: "yes"},
			Containers:   []corev1.Container{{Name: MainContainer, Image: "img:" + id}, {Name: SideContainer, Image: "side:" + id}},
			Tolerations:  stdTemplateTolerations(id),
		},
	}
}

// stdTemplateTolerations: template B tolerates "unreachable" for five minutes only - the shape the DefaultTolerationSeconds admission
// plugin writes; same key as a default DaemonSet toleration, but it does not cover it.
func stdTemplateTolerations(id string) []corev1.Toleration {
	if id != "B" {
		return nil
	}
	secs := int64(300)
	return []corev1.Toleration{{Key: "node.kubernetes.io/unreachable", Operator: corev1.TolerationOpExists, Effect: corev1.TaintEffectNoExecute, TolerationSeconds: &secs}}
}

func (c *Cluster) identOfTemplate(t *corev1.PodTemplateSpec) string {
	cp := t.DeepCopy()
	cp.Name = ""
	if id, ok := c.tmplHash[HashTemplate(cp)]; ok {
		return id
	}
	if id, ok := c.tmplHash[HashTemplate(t)]; ok {
		return id
	}
	return "other"
}

func (c *Cluster) identOfHash(h string) string {
	if h == "" {
		return "none"
	}
	if id, ok := c.tmplHash[h]; ok {
		return id
	}
	return "other"
}

// ---------- reconcile ----------

// Reconcile runs one real Reconcile of controller actor on key and returns the event (state not yet filled).
func (c *Cluster) Reconcile(actor, ns, name string) Event {
	a := c.actors[actor]
	c.mu.Lock()
	a.writes = nil
	a.reads = 0
	c.mu.Unlock()
	var res reconcile.Result
	var err error
	panicked := false
	func() {
		defer func() {
			if r := recover(); r != nil {
				panicked = true
				err = fmt.Errorf("panic: %v", r)
			}
		}()
		res, err = a.rec.Reconcile(context.Background(), reconcile.Request{NamespacedName: types.NamespacedName{Namespace: ns, Name: name}})
	}()
	c.mu.Lock()
	ev := Event{Key: ns + "/" + name, Writes: append([]Write{}, a.writes...), Reads: a.reads, Args: map[string]string{"_": ""}}
	wasDead := a.dead
	c.mu.Unlock()
	if ev.Writes == nil {
		ev.Writes = []Write{}
	}
	ev.Res = Result{Requeue: res.Requeue, After: int((res.RequeueAfter + time.Second - 1) / time.Second), Err: err != nil, Panic: panicked}
	if err != nil {
		ev.Res.ErrMsg = err.Error()
		switch {
		case panicked:
			ev.Res.ErrKind = "panic"
		case strings.Contains(ev.Res.ErrMsg, "unable to select enough node"):
			ev.Res.ErrKind = "nodes"
		case strings.Contains(ev.Res.ErrMsg, "verif:"):
			ev.Res.ErrKind = "injected"
		case apierrors.IsConflict(err) || strings.Contains(ev.Res.ErrMsg, "object was modified"):
			ev.Res.ErrKind = "conflict"
		case strings.Contains(ev.Res.ErrMsg, "not found"):
			ev.Res.ErrKind = "notfound"
		case strings.Contains(ev.Res.ErrMsg, "canary "):
			ev.Res.ErrKind = "validation"
		default:
			ev.Res.ErrKind = "other"
		}
		// number of leaf errors (aggregates flattened): every failed API call of the sync must be one of them
		var agg utilerrors.Aggregate
		if errors.As(err, &agg) {
			ev.Res.NErrs = len(utilerrors.Flatten(agg).Errors())
		} else {
			ev.Res.NErrs = 1
		}
	}
	if wasDead {
		ev.Args["crashed"] = "true"
		c.RestartActor(actor)
	}
	switch actor {
	case "eds":
		ev.Ev = "EDSReconcile"
	case "ers":
		ev.Ev = "ERSReconcile"
		c.mu.Lock()
		ev.RS = c.rsIDs[ns+"/"+name]
		c.mu.Unlock()
	case "setting":
		ev.Ev = "SettingReconcile"
	case "podtemplate":
		ev.Ev = "PodTemplateReconcile"
	}
	return ev
}

// ---------- raw tracker access (time shift, kubelet finish) ----------

func (c *Cluster) gvr(obj runtime.Object) schema.GroupVersionResource {
	gvks, _, _ := c.Scheme.ObjectKinds(obj)
	gvr, _ := meta.UnsafeGuessKindToResource(gvks[0])
	return gvr
}

// rawUpdate replaces the stored object without touching resourceVersion or deletion semantics.
func (c *Cluster) rawUpdate(obj client.Object) error {
	return c.tracker.Update(c.gvr(obj), obj, obj.GetNamespace())
}

// rawDelete removes the stored object.
func (c *Cluster) rawDelete(obj client.Object) error {
	err := c.tracker.Delete(c.gvr(obj), obj.GetNamespace(), obj.GetName())
	if apierrors.IsNotFound(err) {
		return nil
	}
	return err
}

func podNode(p *corev1.Pod) string {
	if p.Spec.NodeName != "" {
		return p.Spec.NodeName
	}
	if p.Spec.Affinity == nil || p.Spec.Affinity.NodeAffinity == nil || p.Spec.Affinity.NodeAffinity.RequiredDuringSchedulingIgnoredDuringExecution == nil {
		return ""
	}
	for _, t := range p.Spec.Affinity.NodeAffinity.RequiredDuringSchedulingIgnoredDuringExecution.NodeSelectorTerms {
		for _, f := range t.MatchFields {
			if f.Key == "metadata.name" && f.Operator == corev1.NodeSelectorOpIn && len(f.Values) == 1 {
				return f.Values[0]
			}
		}
	}
	return ""
}

func podReady(p *corev1.Pod) bool {
	for _, c := range p.Status.Conditions {
		if c.Type == corev1.PodReady {
			return c.Status == corev1.ConditionTrue
		}
	}
	return false
}
