package sim

import (
	"bufio"
	"encoding/json"
	"fmt"
	"math/rand"
	"os"
	"runtime"
	"strings"
	"sync"
)

// ---- fault enumeration (C11, C07): for every API call index k of the failure-free run of a scenario and every fault
// kind, the scenario is run again with that fault injected, followed by a failure-free convergence tail.  The trace
// of the faulted run (from the faulted step on) goes through the same TLA+ formulas; a "reference" event carries the
// final state of the failure-free run so that Trace.tla can compare the final states.

// FaultScenarios are the corpus scenarios used for fault enumeration (small, fast, covering the paths of C11).
var FaultScenarios = map[string]func(x Scn){
	"first-deployment": func(x Scn) { x.Setup(3, "A", BaseStrategy()) },
	"rolling-update": func(x Scn) {
		x.Setup(3, "A", BaseStrategy())
		x.Template("B")
		x.Rounds(7)
	},
	"canary-promotion": func(x Scn) {
		x.Setup(3, "A", CanaryStrategy("1"))
		x.Template("B")
		x.Rounds(9)
	},
	"canary-failure-rollback": func(x Scn) {
		x.Setup(3, "A", CanaryStrategy("1"))
		x.Template("B")
		x.AwaitCanaryPods(8)
		x.RestartCanaryPods(6)
		x.Rounds(5)
	},
	"node-removal": func(x Scn) {
		x.Setup(3, "A", BaseStrategy())
		x.do(Action{Op: "NodeRemove", N: "n2"})
		x.Rounds(2)
		x.do(Action{Op: "NodeAdd", N: "n4", V: "A,B,C", W: "c;z=z1"})
		x.Rounds(3)
	},
	"settings-change": func(x Scn) {
		x.Setup(2, "A", BaseStrategy())
		x.do(Action{Op: "NodeGroup", N: "n1", V: "g1"})
		x.do(Action{Op: "CreateSetting", Key: Key, V: "s1", W: "foo|g1|r1|", I: 3})
		x.do(Action{Op: "SettingReconcile", Key: "ns1/s1"})
		x.Rounds(4)
	},
	"manual-fail-command": func(x Scn) {
		sc := CanaryStrategy("1")
		sc.CMode, sc.CDuration, sc.CNoRestarts = "manual", 0, -1
		x.Setup(3, "A", sc)
		x.Template("B")
		x.AwaitCanaryPods(8)
		x.do(Action{Op: "Cmd", Key: Key, V: "canary-pause"})
		x.Rounds(1)
		x.do(Action{Op: "Cmd", Key: Key, V: "canary-fail"})
		x.Rounds(4)
	},
}

type faultRun struct {
	scenario string
	k        int
	kind     FaultKind
	k2       int
	kind2    FaultKind
}

type callInfo struct {
	seq   int
	write bool
}

// runScenarioWithFaults runs the scenario in a fresh cluster with the given faults and returns the kept events.
func runScenarioWithFaults(name string, faults map[int]FaultKind, onReads bool) (*Driver, []callInfo) {
	d := NewDriver(Options{FaultOnReads: onReads}, nil)
	d.Keep = true
	d.Reset(Options{FaultOnReads: onReads}, name)
	for k, v := range faults {
		d.C.Faults[k] = v
	}
	var calls []callInfo
	var mu sync.Mutex
	d.C.OnCall = func(actor string, seq int, verb, kind string) {
		mu.Lock()
		calls = append(calls, callInfo{seq, verb != "get" && verb != "list"})
		mu.Unlock()
	}
	FaultScenarios[name](Scn{D: d, R: rand.New(rand.NewSource(1))})
	d.C.OnCall = nil
	// the failure is over: failure-free reconciliation must converge
	for k := range d.C.Faults {
		delete(d.C.Faults, k)
	}
	d.Converge(60)
	return d, calls
}

func runFaults(a CLIArgs) int {
	f, err := os.Create(a.Out)
	if err != nil {
		fmt.Fprintln(os.Stderr, err)
		return 2
	}
	defer f.Close()
	w := bufio.NewWriterSize(f, 1<<20)
	names := strings.Split(a.In, ",")
	thorough := a.Tier == "thorough"
	kinds := []FaultKind{FaultReject, FaultCrashAfter}
	if thorough {
		kinds = []FaultKind{FaultReject, FaultLost, FaultCrashBefore, FaultCrashAfter}
	}
	total, nRuns, nCalls := 0, 0, 0
	r := rand.New(rand.NewSource(a.Seed))
	for _, name := range names {
		if _, ok := FaultScenarios[name]; !ok {
			fmt.Fprintln(os.Stderr, "unknown fault scenario", name)
			return 2
		}
		base, calls := runScenarioWithFaults(name, nil, true)
		ref := base.C.Events[len(base.C.Events)-1].State
		nCalls += len(calls)
		var runs []faultRun
		for _, c := range calls {
			for _, k := range kinds {
				if !c.write && k != FaultReject && k != FaultCrashBefore {
					continue
				}
				if !c.write && !thorough && k != FaultReject {
					continue // quick tier: a read is only rejected (a stop before a read is a stop after the previous write)
				}
				runs = append(runs, faultRun{scenario: name, k: c.seq, kind: k})
			}
		}
		if thorough && a.N > 0 {
			// pairs of faults: a seeded sample of a.N pairs per scenario
			for i := 0; i < a.N; i++ {
				c1, c2 := calls[r.Intn(len(calls))], calls[r.Intn(len(calls))]
				if c1.seq == c2.seq || !c1.write || !c2.write {
					continue
				}
				runs = append(runs, faultRun{scenario: name, k: c1.seq, kind: kinds[r.Intn(len(kinds))], k2: c2.seq, kind2: kinds[r.Intn(len(kinds))]})
			}
		}
		out := make([][]Event, len(runs))
		var wg sync.WaitGroup
		next := make(chan int, len(runs))
		for i := range runs {
			next <- i
		}
		close(next)
		for wk := 0; wk < runtime.NumCPU(); wk++ {
			wg.Add(1)
			go func() {
				defer wg.Done()
				for i := range next {
					fr := runs[i]
					fl := map[int]FaultKind{fr.k: fr.kind}
					if fr.k2 > 0 {
						fl[fr.k2] = fr.kind2
					}
					d, _ := runScenarioWithFaults(fr.scenario, fl, true)
					evs := d.C.Events
					// keep the faulted step, everything after it, and the state it started from
					first := len(evs) - 1
					for j, e := range evs {
						hit := false
						for _, wr := range e.Writes {
							if wr.Inj != "" {
								hit = true
							}
						}
						if e.Args["crashed"] == "true" || (e.Res.Err && e.Res.ErrKind == "injected") {
							hit = true
						}
						if hit {
							first = j
							break
						}
					}
					label := fmt.Sprintf("fault:%s:k=%d:%s", fr.scenario, fr.k, fr.kind)
					if fr.k2 > 0 {
						label += fmt.Sprintf("+k=%d:%s", fr.k2, fr.kind2)
					}
					var seg []Event
					seg = append(seg, Event{Ev: "reset", Args: map[string]string{"_": "", "label": label}, Writes: []Write{}, State: State{Nodes: []NodeS{}, Pods: []PodS{}, RS: []RSS{}, EDS: []EDSS{}, Settings: []SettingS{}, PTmpl: []PTmplS{}}})
					seg = append(seg, Event{Ev: "reference", Args: map[string]string{"_": "", "label": label}, Writes: []Write{}, State: ref})
					if first > 0 {
						seg = append(seg, Event{Ev: "resume", Args: map[string]string{"_": ""}, Writes: []Write{}, State: evs[first-1].State})
					}
					seg = append(seg, evs[first:]...)
					last := evs[len(evs)-1]
					seg = append(seg, Event{Ev: "faultEnd", Args: map[string]string{"_": "", "label": label, "quiet": last.Args["quiet"], "errs": last.Args["errs"]}, Writes: []Write{}, State: last.State})
					out[i] = seg
				}
			}()
		}
		wg.Wait()
		for _, seg := range out {
			for _, e := range seg {
				if e.Args == nil {
					e.Args = map[string]string{"_": ""}
				}
				if e.Writes == nil {
					e.Writes = []Write{}
				}
				b, _ := json.Marshal(e)
				w.Write(b)
				w.WriteByte('\n')
				total++
			}
		}
		nRuns += len(runs)
	}
	w.Flush()
	fmt.Printf("{\"scenarios\":%d,\"api_calls\":%d,\"runs\":%d,\"events\":%d}\n", len(names), nCalls, nRuns, total)
	return 0
}

func init() {
	Subcommands["faults"] = runFaults
}
