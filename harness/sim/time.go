package sim

import (
	"context"
	"reflect"
	"time"

	appsv1 "k8s.io/api/apps/v1"
	corev1 "k8s.io/api/core/v1"
	metav1 "k8s.io/apimachinery/pkg/apis/meta/v1"
	"sigs.k8s.io/controller-runtime/pkg/client"

	edsv1 "github.com/DataDog/extendeddaemonset/api/v1alpha1"
)

var metaTimeType = reflect.TypeOf(metav1.Time{})

// shiftTimes subtracts d from every metav1.Time reachable from v.
func shiftTimes(v reflect.Value, d time.Duration) {
	switch v.Kind() {
	case reflect.Ptr, reflect.Interface:
		if !v.IsNil() {
			shiftTimes(v.Elem(), d)
		}
	case reflect.Struct:
		if v.Type() == metaTimeType {
			if v.CanSet() {
				t := v.Interface().(metav1.Time)
				if !t.IsZero() {
					v.Set(reflect.ValueOf(metav1.NewTime(t.Add(-d))))
				}
			}
			return
		}
		for i := 0; i < v.NumField(); i++ {
			f := v.Field(i)
			if f.CanSet() || f.Kind() == reflect.Ptr || f.Kind() == reflect.Slice || f.Kind() == reflect.Map || f.Kind() == reflect.Struct {
				shiftTimes(f, d)
			}
		}
	case reflect.Slice, reflect.Array:
		for i := 0; i < v.Len(); i++ {
			shiftTimes(v.Index(i), d)
		}
	case reflect.Map:
		// map values are not addressable: copy, shift, store back (only maps of structs/pointers matter)
		if v.Type().Elem().Kind() == reflect.String {
			return
		}
		for _, k := range v.MapKeys() {
			e := v.MapIndex(k)
			cp := reflect.New(e.Type()).Elem()
			cp.Set(e)
			shiftTimes(cp, d)
			v.SetMapIndex(k, cp)
		}
	}
}

// allObjects lists every object of the kinds the simulation uses.
func (c *Cluster) allObjects() []client.Object {
	ctx := context.Background()
	var out []client.Object
	var pods corev1.PodList
	_ = c.base.List(ctx, &pods)
	for i := range pods.Items {
		out = append(out, &pods.Items[i])
	}
	var nodes corev1.NodeList
	_ = c.base.List(ctx, &nodes)
	for i := range nodes.Items {
		out = append(out, &nodes.Items[i])
	}
	var rs edsv1.ExtendedDaemonSetReplicaSetList
	_ = c.base.List(ctx, &rs)
	for i := range rs.Items {
		out = append(out, &rs.Items[i])
	}
	var eds edsv1.ExtendedDaemonSetList
	_ = c.base.List(ctx, &eds)
	for i := range eds.Items {
		out = append(out, &eds.Items[i])
	}
	var set edsv1.ExtendedDaemonsetSettingList
	_ = c.base.List(ctx, &set)
	for i := range set.Items {
		out = append(out, &set.Items[i])
	}
	var pt corev1.PodTemplateList
	_ = c.base.List(ctx, &pt)
	for i := range pt.Items {
		out = append(out, &pt.Items[i])
	}
	var ds appsv1.DaemonSetList
	_ = c.base.List(ctx, &ds)
	for i := range ds.Items {
		out = append(out, &ds.Items[i])
	}
	return out
}

// Tick advances virtual time by n units: every stored instant moves back by n*Unit.
func (c *Cluster) Tick(n int) {
	d := time.Duration(n) * Unit
	for _, o := range c.allObjects() {
		shiftTimes(reflect.ValueOf(o), d)
		_ = c.rawUpdate(o)
	}
	c.VNow += n
	c.advanceBackOffClock(d)
}

// ageUnits converts a stored instant into an age in whole units (-1 for the zero instant).
func ageUnits(t metav1.Time, now time.Time) int {
	if t.IsZero() {
		return -1
	}
	d := now.Sub(t.Time)
	if d < 0 {
		return 0
	}
	return int(d / Unit)
}
