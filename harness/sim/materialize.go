package sim

import (
	"bufio"
	"encoding/json"
	"fmt"
	"os"
	"strings"
	"time"

	corev1 "k8s.io/api/core/v1"
	metav1 "k8s.io/apimachinery/pkg/apis/meta/v1"
	"k8s.io/apimachinery/pkg/types"

	edsv1 "github.com/DataDog/extendeddaemonset/api/v1alpha1"
)

// ---- state vectors (binding B3): TLC enumerates a bounded space of cluster states as JSON records; the harness
// materialises each as real Kubernetes objects, runs the listed steps through the real code and records the trace.

// VNode is a node of a state vector.
type VNode struct {
	Name     string `json:"name"`
	Fits     string `json:"fits"` // csv of templates
	CSel     bool   `json:"csel"`
	Zone     string `json:"zone"`
	Taint    bool   `json:"taint"`
	Override string `json:"override"`
	Group    string `json:"group"`
}

// VCond is a condition of a replica set in a state vector (ages in units).
type VCond struct {
	Type string `json:"type"`
	True bool   `json:"true"`
	LTT  int    `json:"ltt"`
	LUT  int    `json:"lut"`
}

// VRS is a replica set of a state vector.
type VRS struct {
	Tmpl     string  `json:"tmpl"`
	Age      int     `json:"age"`
	Status   string  `json:"status"`
	Counters []int   `json:"counters"` // desired current ready available
	Conds    []VCond `json:"conds"`
}

// VPod is a pod of a state vector.
type VPod struct {
	Node       string `json:"node"`
	Tmpl       string `json:"tmpl"` // hash annotation = this template
	RS         string `json:"rs"`   // template of the owning replica set
	Phase      string `json:"phase"`
	Ready      bool   `json:"ready"`
	Term       bool   `json:"term"`
	Stuck      bool   `json:"stuck"`
	Unsched    bool   `json:"unsched"` // pinned by affinity, not bound yet
	ReadyUnknown bool `json:"readyUnknown"` // Ready condition with status Unknown (node stopped reporting)
	Restarts   int    `json:"restarts"`
	RestartAge int    `json:"restartAge"`
	Waiting    string `json:"waiting"`
	StartAge   int    `json:"startAge"`
	CLabel     bool   `json:"clabel"`
	Age        int    `json:"age"`
	Res        string `json:"res"`
}

// VEDS is the ExtendedDaemonSet of a state vector.
type VEDS struct {
	Tmpl      string   `json:"tmpl"`
	RUPaused  bool     `json:"ruPaused"`
	Frozen    bool     `json:"frozen"`
	CPaused   string   `json:"cPaused"`   // "" | true | false
	CUnpaused string   `json:"cUnpaused"` // "" | true | false
	CValid    string   `json:"cValid"`    // template of the RS named, "" none, "?" a name that matches no RS
	Active    string   `json:"active"`    // template of the active RS ("" none, "?" a name that matches no RS)
	Canary    string   `json:"canary"`    // template of status.canary.replicaSet ("" = no status.canary)
	CNodes    []string `json:"cNodes"`
	Desired   int      `json:"desired"`
	State     string   `json:"state"`
}

// VSetting is an ExtendedDaemonsetSetting of a state vector.
type VSetting struct {
	Name string `json:"name"`
	Ref  string `json:"ref"`
	Sel  string `json:"sel"` // group selected; "!bad" = unusable selector
	Res  string `json:"res"`
	Age  int    `json:"age"`
	Expr bool   `json:"expr"`
}

// Vector is one state vector.
type Vector struct {
	Label    string         `json:"label"`
	Strategy StrategyConfig `json:"strategy"`
	Affinity bool           `json:"affinity"`
	Nodes    []VNode        `json:"nodes"`
	EDS      VEDS           `json:"eds"`
	RS       []VRS          `json:"rs"`
	Pods     []VPod         `json:"pods"`
	Settings []VSetting     `json:"settings"`
	Steps    []Action       `json:"steps"`
	Reps     int            `json:"reps"`
	PodFault string         `json:"podFault"`
}

func ago(units int) metav1.Time {
	return metav1.NewTime(time.Now().Add(-time.Duration(units) * Unit).Truncate(time.Second))
}

// Materialize builds the objects of v in a fresh cluster (no reconciler involved).
func (d *Driver) Materialize(v *Vector) error {
	c := d.C
	d.Strategy[Key] = v.Strategy
	for _, n := range v.Nodes {
		if err := c.NodeAdd(n.Name, csv(n.Fits), n.CSel, n.Zone); err != nil {
			return err
		}
		if n.Taint {
			_ = c.NodeTaint(n.Name, true)
		}
		if n.Group != "" {
			_ = c.NodeLabel(n.Name, GroupLabel, n.Group)
		}
		if n.Override != "" && n.Override != "none" {
			_ = c.NodeOverride(n.Name, "ns1", "foo", n.Override, "")
		}
	}
	// the ExtendedDaemonSet, defaulted as the controller would
	e := &edsv1.ExtendedDaemonSet{ObjectMeta: metav1.ObjectMeta{Namespace: "ns1", Name: "foo", CreationTimestamp: ago(20), UID: "eds-uid-ns1-foo",
		Labels: map[string]string{"team": "x"}, Annotations: map[string]string{}}}
	e.Spec.Template = *c.Templates[v.EDS.Tmpl].DeepCopy()
	e.Spec.Strategy = BuildStrategy(v.Strategy)
	edsv1.DefaultExtendedDaemonSetSpec(&e.Spec, edsv1.ExtendedDaemonSetSpecStrategyCanaryValidationModeAuto)
	rsName := map[string]string{}
	for _, r := range v.RS {
		rsName[r.Tmpl] = "foo-" + strings.ToLower(r.Tmpl) + "x"
	}
	nameOf := func(t string) string {
		if t == "?" {
			return "foo-nosuch"
		}
		return rsName[t]
	}
	if v.EDS.RUPaused {
		e.Annotations[edsv1.ExtendedDaemonSetRollingUpdatePausedAnnotationKey] = "true"
	}
	if v.EDS.Frozen {
		e.Annotations[edsv1.ExtendedDaemonSetRolloutFrozenAnnotationKey] = "true"
	}
	if v.EDS.CPaused != "" {
		e.Annotations[edsv1.ExtendedDaemonSetCanaryPausedAnnotationKey] = v.EDS.CPaused
	}
	if v.EDS.CUnpaused != "" {
		e.Annotations[edsv1.ExtendedDaemonSetCanaryUnpausedAnnotationKey] = v.EDS.CUnpaused
	}
	if v.EDS.CValid != "" {
		e.Annotations[edsv1.ExtendedDaemonSetCanaryValidAnnotationKey] = nameOf(v.EDS.CValid)
	}
	e.Status.ActiveReplicaSet = ""
	if v.EDS.Active != "" {
		e.Status.ActiveReplicaSet = nameOf(v.EDS.Active)
	}
	if v.EDS.Canary != "" {
		e.Status.Canary = &edsv1.ExtendedDaemonSetStatusCanary{ReplicaSet: nameOf(v.EDS.Canary), Nodes: v.EDS.CNodes}
	}
	e.Status.Desired = int32(v.EDS.Desired)
	e.Status.State = edsv1.ExtendedDaemonSetStatusState(v.EDS.State)
	st := e.Status
	if err := c.base.Create(bg, e); err != nil {
		return err
	}
	e.Status = st
	if err := c.base.Status().Update(bg, e); err != nil {
		return err
	}
	t := true
	for _, r := range v.RS {
		tmpl := c.Templates[r.Tmpl]
		hash := HashTemplate(tmpl)
		x := &edsv1.ExtendedDaemonSetReplicaSet{ObjectMeta: metav1.ObjectMeta{Namespace: "ns1", Name: rsName[r.Tmpl], CreationTimestamp: ago(r.Age),
			UID:    types.UID("rs-uid-" + r.Tmpl),
			Labels: map[string]string{edsv1.ExtendedDaemonSetNameLabelKey: "foo", "team": "x"}, Annotations: map[string]string{edsv1.MD5ExtendedDaemonSetAnnotationKey: hash},
			OwnerReferences: []metav1.OwnerReference{{APIVersion: "datadoghq.com/v1alpha1", Kind: "ExtendedDaemonSet", Name: "foo", UID: e.UID, Controller: &t, BlockOwnerDeletion: &t}}}}
		x.Spec.Template = *tmpl.DeepCopy()
		x.Spec.TemplateGeneration = hash
		x.Status.Status = r.Status
		if len(r.Counters) == 4 {
			x.Status.Desired, x.Status.Current, x.Status.Ready, x.Status.Available = int32(r.Counters[0]), int32(r.Counters[1]), int32(r.Counters[2]), int32(r.Counters[3])
		}
		for _, cd := range r.Conds {
			s := corev1.ConditionFalse
			if cd.True {
				s = corev1.ConditionTrue
			}
			x.Status.Conditions = append(x.Status.Conditions, edsv1.ExtendedDaemonSetReplicaSetCondition{
				Type: edsv1.ExtendedDaemonSetReplicaSetConditionType(cd.Type), Status: s, LastTransitionTime: ago(cd.LTT), LastUpdateTime: ago(cd.LUT)})
		}
		xs := x.Status
		if err := c.base.Create(bg, x); err != nil {
			return err
		}
		c.registerCreated(x, false)
		x.Status = xs
		if err := c.base.Status().Update(bg, x); err != nil {
			return err
		}
	}
	for i, p := range v.Pods {
		if err := c.placePod(i, p, rsName); err != nil {
			return err
		}
	}
	for _, x := range v.Settings {
		if err := c.CreateSetting("ns1", x.Name, x.Ref, x.Sel, x.Res, x.Expr, c.settingInstant(x.Age)); err != nil {
			return err
		}
	}
	return nil
}

// placePod builds a pod by hand (independently of the repository's pod builder).
func (c *Cluster) placePod(i int, p VPod, rsName map[string]string) error {
	tmpl := c.Templates[p.Tmpl]
	t := true
	pod := &corev1.Pod{ObjectMeta: metav1.ObjectMeta{Namespace: "ns1", Name: fmt.Sprintf("%s-p%02d", rsName[p.RS], i), CreationTimestamp: ago(p.Age),
		UID: types.UID(fmt.Sprintf("pod-uid-%d", i)), Labels: map[string]string{"app": "agent", edsv1.ExtendedDaemonSetNameLabelKey: "foo",
			edsv1.ExtendedDaemonSetReplicaSetNameLabelKey: rsName[p.RS]},
		Annotations: map[string]string{edsv1.MD5ExtendedDaemonSetAnnotationKey: HashTemplate(tmpl)},
		OwnerReferences: []metav1.OwnerReference{{APIVersion: "datadoghq.com/v1alpha1", Kind: "ExtendedDaemonSetReplicaSet", Name: rsName[p.RS],
			UID: types.UID("rs-uid-" + p.RS), Controller: &t, BlockOwnerDeletion: &t}},
		Finalizers: []string{KubeletFinalizer}}}
	pod.Spec = *tmpl.Spec.DeepCopy()
	if r, ok := resClasses[p.Res]; ok {
		pod.Spec.Containers[0].Resources = r
	}
	if p.Unsched {
		pod.Spec.Affinity = &corev1.Affinity{NodeAffinity: &corev1.NodeAffinity{RequiredDuringSchedulingIgnoredDuringExecution: &corev1.NodeSelector{
			NodeSelectorTerms: []corev1.NodeSelectorTerm{{MatchFields: []corev1.NodeSelectorRequirement{{Key: "metadata.name", Operator: corev1.NodeSelectorOpIn, Values: []string{p.Node}}}}}}}}
		if p.Stuck {
			pod.CreationTimestamp = metav1.NewTime(time.Now().Add(-11 * time.Minute).Truncate(time.Second))
		}
	} else {
		pod.Spec.NodeName = p.Node
	}
	if p.CLabel {
		pod.Labels[edsv1.ExtendedDaemonSetReplicaSetCanaryLabelKey] = "true"
	}
	phase := corev1.PodPhase(p.Phase)
	pod.Status.Phase = phase
	rs := corev1.ConditionFalse
	if p.Ready {
		rs = corev1.ConditionTrue
	}
	if p.ReadyUnknown {
		rs = corev1.ConditionUnknown
	}
	pod.Status.Conditions = []corev1.PodCondition{{Type: corev1.PodReady, Status: rs, LastTransitionTime: ago(p.Age)}}
	if p.StartAge >= 0 {
		s := ago(p.StartAge)
		pod.Status.StartTime = &s
	}
	cs := corev1.ContainerStatus{Name: MainContainer, Ready: p.Ready, RestartCount: int32(p.Restarts)}
	switch {
	case p.Waiting != "" && p.Waiting != "none":
		cs.State = corev1.ContainerState{Waiting: &corev1.ContainerStateWaiting{Reason: p.Waiting}}
	default:
		cs.State = corev1.ContainerState{Running: &corev1.ContainerStateRunning{StartedAt: ago(p.Age)}}
	}
	if p.Restarts > 0 {
		ra := p.RestartAge
		if ra < 0 {
			ra = 0
		}
		cs.LastTerminationState = corev1.ContainerState{Terminated: &corev1.ContainerStateTerminated{Reason: "Error", ExitCode: 1, FinishedAt: ago(ra), StartedAt: ago(ra)}}
	}
	pod.Status.ContainerStatuses = []corev1.ContainerStatus{cs}
	if err := c.base.Create(bg, pod); err != nil {
		return err
	}
	c.registerCreated(pod, false)
	if p.Term {
		now := metav1.NewTime(time.Now().Truncate(time.Second))
		g := int64(30)
		if p.Stuck {
			now = metav1.NewTime(time.Now().Add(-2 * time.Minute).Truncate(time.Second))
		}
		pod.DeletionTimestamp = &now
		pod.DeletionGracePeriodSeconds = &g
		return c.rawUpdate(pod)
	}
	return nil
}

// runVectors materialises every vector of the input file and runs its steps; writes one trace.
func runVectors(a CLIArgs) int {
	in, err := os.Open(a.In)
	if err != nil {
		fmt.Fprintln(os.Stderr, err)
		return 2
	}
	defer in.Close()
	f, err := os.Create(a.Out)
	if err != nil {
		fmt.Fprintln(os.Stderr, err)
		return 2
	}
	defer f.Close()
	d := NewDriver(Options{}, f)
	sc := bufio.NewScanner(in)
	sc.Buffer(make([]byte, 1<<20), 1<<26)
	nvec, nrun := 0, 0
	for sc.Scan() {
		line := strings.TrimSpace(sc.Text())
		if line == "" {
			continue
		}
		var v Vector
		if err := json.Unmarshal([]byte(line), &v); err != nil {
			fmt.Fprintln(os.Stderr, "bad vector:", err)
			return 2
		}
		nvec++
		reps := v.Reps
		if reps <= 0 {
			reps = 1
		}
		for rep := 0; rep < reps; rep++ {
			d.Reset(Options{AffinityMode: v.Affinity}, v.Label)
			if err := d.Materialize(&v); err != nil {
				fmt.Fprintln(os.Stderr, "materialize:", err, line)
				return 2
			}
			d.Emit(Event{Ev: "Materialize", Key: Key, Args: map[string]string{"_": "", "label": v.Label}})
			d.C.PodFault = v.PodFault
			for _, s := range v.Steps {
				if s.Key == "" {
					s.Key = Key
				}
				d.Apply(s)
			}
			nrun++
		}
	}
	d.Flush()
	fmt.Printf("{\"vectors\":%d,\"runs\":%d,\"events\":%d,\"applied\":%d,\"skipped\":%d}\n", nvec, nrun, d.NEvents, d.Applied, d.Skipped)
	return 0
}

func init() {
	Subcommands["vectors"] = runVectors
}
