----------------------------- MODULE Gen_Labels -----------------------------
(* Vector generator for C20 (binding B3): every label map of at most MaxKeys keys whose keys are words of length
   1..MaxLen over a small alphabet containing the characters Prometheus does not allow (dot, slash, dash) - hence all
   the collisions after sanitising - plus a lattice of status values for the gauge families. *)
EXTENDS Integers, Sequences, SequencesExt, FiniteSets, FiniteSetsExt, TLC, Json

CONSTANTS MaxLen, MaxKeys, OutFile

Alphabet == {"a", "b", "A", "1", ".", "/", "-", "_"}

RECURSIVE Words(_)
Words(n) == IF n = 0 THEN {<<>>} ELSE { <<c>> \o w : c \in Alphabet, w \in Words(n - 1) }
Keys == UNION { Words(n) : n \in 1..MaxLen }

Sub(k) == CASE k = 0 -> {{}}
            [] k = 1 -> { {a} : a \in Keys }
            [] k = 2 -> { {a, b} : a \in Keys, b \in Keys }
            [] OTHER -> { {a, b, c} : a \in Keys, b \in Keys, c \in Keys }
AllMaps == UNION { Sub(k) : k \in 0..MaxKeys }

NoStatus == [desired |-> 0, current |-> 0, ready |-> 0, available |-> 0, upToDate |-> 0, ignored |-> 0, canaryNodes |-> 0]
NoFlags  == [canary |-> FALSE, ruPaused |-> FALSE, frozen |-> FALSE, failed |-> FALSE]

LabelVec(M) == [fn |-> "labels", labels |-> SetToSeq(M), kind |-> "", status |-> NoStatus, flags |-> NoFlags, cpaused |-> "none"]

MetricVecsOf(k, CP) ==
    { [fn |-> "metrics", labels |-> <<>>, kind |-> k,
       status |-> [desired |-> d, current |-> c, ready |-> r, available |-> a, upToDate |-> u, ignored |-> i, canaryNodes |-> cn],
       flags |-> [canary |-> cf, ruPaused |-> p, frozen |-> f, failed |-> fl],
       \* the Canary-Paused condition of the ExtendedDaemonSet: absent, True (with a reason), False (fresh), False keeping the reason of an earlier pause
       cpaused |-> cp] :
        d \in {0, 1, 7}, c \in {0, 2}, r \in {0, 3}, a \in {0, 4}, u \in {0, 5}, i \in {0, 6}, cn \in {0, 2},
        cf \in BOOLEAN, p \in BOOLEAN, f \in BOOLEAN, fl \in BOOLEAN,
        cp \in CP }
\* (for a replica set the field describes its Canary-Failed condition: absent, True, or present with status False)
MetricVecs == MetricVecsOf("eds", {"none", "true", "false", "falseReason"}) \cup MetricVecsOf("ers", {"none", "true", "false"})

Space == { LabelVec(M) : M \in AllMaps } \cup MetricVecs

ASSUME PrintT(<<"VECTORS", Cardinality(Space)>>)
ASSUME ndJsonSerialize(OutFile, SetToSeq(Space))
=============================================================================
