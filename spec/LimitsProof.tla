---------------------------- MODULE LimitsProof ----------------------------
(***************************************************************************)
(* C03, unbounded: the deletion budget of the rolling update               *)
(* (limits.CalculatePodToCreateAndDelete as transcribed in Ctrl!LimitDelete,*)
(* with the unavailable-first order of strategy.ManageDeployment) deletes  *)
(* at most max(0, maxUnavailable - U) AVAILABLE pods and at most           *)
(* maxUnavailable pods in all, for EVERY number of nodes and every         *)
(* assignment of the nodes to the categories of the statement - not only   *)
(* the layouts of up to five nodes Gen_Limits enumerates.  Checked by      *)
(* TLAPS.                                                                  *)
(*                                                                         *)
(*   N          targeted nodes                                             *)
(*   stuck      nodes whose pod is stuck (tolerated up to maxSF)           *)
(*   avail      nodes with an up-to-date available pod                     *)
(*   oldAvail   nodes with an outdated available pod   (deletion candidates)*)
(*   oldUnavail nodes with an outdated unavailable pod (deletion candidates)*)
(*   U          nodes without an available daemon pod, stuck ones          *)
(*              tolerated up to maxSF: N - min(stuck, maxSF) - avail - oldAvail *)
(***************************************************************************)
EXTENDS Integers, TLAPS

Min2(a, b) == IF a <= b THEN a ELSE b
Max2(a, b) == IF a >= b THEN a ELSE b
Clamp0(x)  == IF x < 0 THEN 0 ELSE x

\* Ctrl!LimitDelete
LimitDelete(nbNodes, unresp, maxUnsched, avail, oldAvail, oldUnavail, maxUnav) ==
    Clamp0(Min2(maxUnav - (nbNodes - Min2(unresp, maxUnsched) - avail - oldAvail) + oldUnavail, maxUnav))

\* the candidates are sorted unavailable first and the first nbDelete are deleted: the number of AVAILABLE pods among them
AvailableDeleted(nbDelete, oldAvail, oldUnavail) == Min2(oldAvail, Max2(0, nbDelete - oldUnavail))

THEOREM Budget ==
    ASSUME NEW N \in Nat, NEW stuck \in Nat, NEW maxSF \in Nat, NEW avail \in Nat, NEW oldAvail \in Nat, NEW oldUnavail \in Nat,
           NEW maxU \in Nat
    PROVE  LET U  == N - Min2(stuck, maxSF) - avail - oldAvail
               nb == LimitDelete(N, stuck, maxSF, avail, oldAvail, oldUnavail, maxU)
           IN /\ nb \in Nat
              /\ nb <= maxU                                                            \* never more than maxUnavailable deletions
              /\ AvailableDeleted(nb, oldAvail, oldUnavail) <= Max2(0, maxU - U)         \* available pods only while the budget lasts
BY DEF LimitDelete, AvailableDeleted, Min2, Max2, Clamp0

\* Ctrl!LimitCreate: never more creations than nodes lacking a pod, nor than the ramp allows
LimitCreate(nbNodes, nbPods, maxCreation) == Clamp0(Min2(nbNodes - nbPods, maxCreation))

THEOREM Creation ==
    ASSUME NEW N \in Nat, NEW pods \in Nat, NEW maxC \in Int
    PROVE  /\ LimitCreate(N, pods, maxC) \in Nat
           /\ LimitCreate(N, pods, maxC) <= Max2(0, maxC)
           /\ LimitCreate(N, pods, maxC) <= Max2(0, N - pods)
BY DEF LimitCreate, Min2, Max2, Clamp0
=============================================================================
