----------------------------- MODULE Gen_Batch -----------------------------
(* Vector generator for C17 (error accounting clause): batches of BatchSizes simultaneous pod creations, update
   deletions and clean-up deletions by one real sync of the active replica set, with none / the first / every second /
   all of the pod API calls failing.  Trace.tla judges the recorded sync with C17_Step. *)
EXTENDS Integers, Sequences, SequencesExt, FiniteSets, TLC, Json

CONSTANTS OutFile, BatchSizes

NodeName(i) == "n" \o ToString(i)
Pod(i, tmpl) == [node |-> NodeName(i), tmpl |-> tmpl, rs |-> tmpl, phase |-> "Running", ready |-> TRUE, term |-> FALSE, stuck |-> FALSE, unsched |-> FALSE,
                 restarts |-> 0, restartAge |-> -1, waiting |-> "", startAge |-> 3, clabel |-> FALSE, age |-> 3, res |-> ""]

Strategy(n) == [MaxUnavailable |-> ToString(n), MaxSchedFailure |-> "0", MaxParallel |-> 250, SlowStartInterval |-> 1, SlowStartIncrease |-> "100%", Frequency |-> 1, Canary |-> FALSE]

Vec(kind, n, fault, role) ==
    [label |-> "batch-" \o kind, affinity |-> FALSE, reps |-> 1, podFault |-> fault, strategy |-> [Strategy(n) EXCEPT !.Canary = (role = "canary")],
     nodes |-> [i \in 1..n |-> [name |-> NodeName(i), fits |-> (IF kind = "cleanup" THEN "-" ELSE "A,B"), csel |-> TRUE, zone |-> "z1", taint |-> FALSE, override |-> "none", group |-> ""]],
     eds |-> [tmpl |-> "B", ruPaused |-> FALSE, frozen |-> FALSE, cPaused |-> "", cUnpaused |-> "", cValid |-> "",
              active |-> (IF role = "canary" THEN "A" ELSE "B"), canary |-> (IF role = "canary" THEN "B" ELSE ""),
              \* canary role: creations / update deletions / clean-ups (pods on canary nodes the template no longer fits) happen on the
              \* canary nodes - all n of them (the canary role ignores every other node)
              cNodes |-> (IF role = "canary" THEN [i \in 1..n |-> NodeName(i)] ELSE <<>>), desired |-> n, state |-> "Running"],
     rs |-> << [tmpl |-> "A", age |-> 9, status |-> "unknown", counters |-> <<0, 0, 0, 0>>, conds |-> <<>>],
               [tmpl |-> "B", age |-> 6, status |-> "active", counters |-> <<n, 0, 0, 0>>,
                conds |-> << [type |-> "Active", true |-> TRUE, ltt |-> 4, lut |-> 4], [type |-> "LastFullSync", true |-> TRUE, ltt |-> 6, lut |-> 2] >>] >>,
     pods |-> (IF kind = "create" THEN <<>> ELSE [i \in 1..n |-> Pod(i, "A")]),
     steps |-> << [op |-> "ERSReconcile", t |-> "B"] >>]

Space == { Vec(k, n, f, "active") : k \in {"create", "delete", "cleanup"}, n \in BatchSizes, f \in {"", "first", "alt", "all"} } \cup
         { Vec(k, n, f, "canary") : k \in {"create", "delete", "cleanup"}, n \in BatchSizes, f \in {"", "first", "alt", "all"} }

ASSUME PrintT(<<"VECTORS", Cardinality(Space)>>)
ASSUME ndJsonSerialize(OutFile, SetToSeq(Space))
=============================================================================
