SPECIFICATION SSpecRollout
CONSTANTS
  NodeSeq <- MC_NodeSeq3
  TmplSeq <- MC_TmplSeq
  InitFits <- MC_InitFits3
  Strat <- MC_StratRollout
  OldDS <- MC_OldDS
  EnvBudget = 2
  EditBudget = 1
  AnnBudget = 1
  EnvKinds = {"unready", "fail", "node", "dup"}
  FaultBudget = 0
  MaxPerNode = 4
  AgeCap = 3
  KnownFindings = {}
  Notes = FALSE
  Depth = 60
CONSTRAINT SchedPrint
CHECK_DEADLOCK FALSE
