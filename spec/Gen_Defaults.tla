---------------------------- MODULE Gen_Defaults ----------------------------
(***************************************************************************)
(* Vector generator for C16 (binding B3): the boundary lattice of the      *)
(* ExtendedDaemonSet spec.  Every strategy field is varied over its        *)
(* lattice around a base point ("each field alone"), and the block of      *)
(* canary fields that interact in defaulting / validation is enumerated    *)
(* as a full product; both controller-level default validation modes.      *)
(* Each vector goes through Default, Default o Default, IsDefaulted,       *)
(* Validate and the two real Reconcile functions (harness/sim/fn.go);      *)
(* Judge_Defaults.tla evaluates the outcomes.                              *)
(***************************************************************************)
EXTENDS Integers, Sequences, SequencesExt, FiniteSets, TLC, Json

CONSTANTS OutFile, Full   \* Full = TRUE: also the large product of the thorough tier

Lattice == [
  tmplName        |-> {"", "x"},
  maxUnavailable  |-> {"absent", "0", "1", "-1", "50%", "abc%", "1000"},
  maxSchedFailure |-> {"absent", "0", "1", "50%", "abc%"},
  maxParallel     |-> {"absent", "0", "1", "-1", "100000"},
  ssInterval      |-> {"absent", "0s", "-1s", "1m"},
  ssIncrease      |-> {"absent", "0", "1", "50%", "abc%"},
  frequency       |-> {"absent", "0s", "-1s", "10s"},
  canary          |-> {"absent", "present"},
  cReplicas       |-> {"absent", "0", "1", "50%", "abc%", "1000"},
  cDuration       |-> {"absent", "0s", "5m"},
  cNoRestarts     |-> {"absent", "0s", "2m"},
  cMode           |-> {"", "auto", "manual"},
  cSelector       |-> {"absent", "present"},
  cAntiAffinity   |-> {"absent", "present"},
  autoPause       |-> {"absent", "present"},
  apEnabled       |-> {"absent", "true", "false"},
  apMaxRestarts   |-> {"absent", "0", "2", "5"},
  apMaxSlowStart  |-> {"absent", "1m"},
  autoFail        |-> {"absent", "present"},
  afEnabled       |-> {"absent", "true", "false"},
  afMaxRestarts   |-> {"absent", "0", "1", "5"},
  afMaxRestartsDur |-> {"absent", "1m"},
  afTimeout       |-> {"absent", "1m", "10m"} ]

Fields == DOMAIN Lattice

Base == [ tmplName |-> "", maxUnavailable |-> "1", maxSchedFailure |-> "0", maxParallel |-> "absent", ssInterval |-> "1m", ssIncrease |-> "1",
          frequency |-> "10s", canary |-> "present", cReplicas |-> "1", cDuration |-> "5m", cNoRestarts |-> "2m", cMode |-> "auto",
          cSelector |-> "absent", cAntiAffinity |-> "absent", autoPause |-> "present", apEnabled |-> "true", apMaxRestarts |-> "2", apMaxSlowStart |-> "absent",
          autoFail |-> "present", afEnabled |-> "true", afMaxRestarts |-> "5", afMaxRestartsDur |-> "absent", afTimeout |-> "absent" ]

Empty == [ f \in Fields |-> IF f = "tmplName" \/ f = "cMode" THEN "" ELSE "absent" ]
EmptyCanary == [ Empty EXCEPT !.canary = "present" ]

\* each field alone, around three base points
OneField(b) == UNION { { [b EXCEPT ![f] = v] : v \in Lattice[f] } : f \in Fields }
Singles == OneField(Base) \cup OneField(Empty) \cup OneField(EmptyCanary)

\* the interacting canary block, full product
Block == { [Base EXCEPT !.cMode = m, !.cDuration = du, !.cNoRestarts = nr, !.autoFail = af, !.afEnabled = afe, !.afTimeout = to,
                        !.afMaxRestarts = afm, !.autoPause = ap, !.apEnabled = ape, !.apMaxRestarts = apm] :
             m \in Lattice.cMode, du \in Lattice.cDuration, nr \in Lattice.cNoRestarts, af \in Lattice.autoFail, afe \in Lattice.afEnabled,
             to \in Lattice.afTimeout, afm \in {"absent", "1", "5"}, ap \in Lattice.autoPause, ape \in {"absent", "false"}, apm \in {"absent", "2"} }

\* rolling-update block, full product (reconcile paths: percent parsing, division, clamps)
RUBlock == { [Empty EXCEPT !.maxUnavailable = mu, !.maxSchedFailure = sf, !.maxParallel = mp, !.ssInterval = si, !.ssIncrease = inc, !.frequency = fr] :
               mu \in Lattice.maxUnavailable, sf \in {"absent", "50%", "abc%"}, mp \in Lattice.maxParallel, si \in Lattice.ssInterval,
               inc \in {"absent", "0", "50%", "abc%"}, fr \in {"absent", "0s", "10s"} }

Points == Singles \cup (IF Full THEN Block \cup RUBlock ELSE { p \in Block : p.autoPause = "present" /\ p.afMaxRestarts # "1" } \cup { p \in RUBlock : p.maxParallel \in {"absent", "0"} /\ p.frequency = "absent" })

\* the store the two Reconcile functions run on: two nodes that match the canary selector ("nodes"), two nodes that do not
\* ("nomatch"), no node at all ("empty").  The latter two are applied to the single-field points and to the canary
\* node-selection block (selector x anti-affinity keys x replicas).
SelBlock == { [Base EXCEPT !.cSelector = cs, !.cAntiAffinity = aa, !.cReplicas = cr] :
                cs \in Lattice.cSelector, aa \in Lattice.cAntiAffinity, cr \in Lattice.cReplicas }

Space == { [fn |-> "defaults", spec |-> p, mode |-> m, store |-> "nodes"] : p \in Points \cup SelBlock, m \in {"auto", "manual"} } \cup
         { [fn |-> "defaults", spec |-> p, mode |-> "auto", store |-> st] : p \in Singles \cup SelBlock, st \in {"nomatch", "empty"} }

ASSUME PrintT(<<"VECTORS", Cardinality(Space)>>)
ASSUME ndJsonSerialize(OutFile, SetToSeq(Space))
=============================================================================
