SPECIFICATION Spec
CONSTANT TraceFile = "trace.ndjson"
CONSTANT KnownFindings = {}
CONSTANT Notes = FALSE
PROPERTY P_C01 P_C02 P_C03 P_C04 P_C05 P_C07 P_C08 P_C09 P_C09s P_C10 P_C12 P_C13 P_C14 P_C15 P_C16 P_C17
INVARIANT I_C13
POSTCONDITION TraceAccepted
CHECK_DEADLOCK FALSE
