------------------------------- MODULE Props -------------------------------
(***************************************************************************)
(* The properties C01..C20 of /verif/properties.jsonl as step formulas     *)
(* over (s, e): s is the abstract state a step started from (the state     *)
(* the reconcile read), e the event of the step (action name, arguments,   *)
(* API writes, result) whose field e.state is the state after the step.    *)
(*                                                                         *)
(* Trace.tla evaluates them on every recorded step of the real code,       *)
(* Cluster.tla's configurations on every transition of the model.          *)
(*                                                                         *)
(* NT(..) notes a non-trivial evaluation (antecedent held) for the         *)
(* evidence; Masked(..) implements known findings: a violation whose       *)
(* signature predicate holds and whose id is in KnownFindings is printed   *)
(* as KNOWN-FINDING and not reported again.                                *)
(***************************************************************************)
EXTENDS Abs, TLC

CONSTANT KnownFindings   \* set of ids (strings) from /verif/known_findings.json
CONSTANT Notes           \* TRUE: print NT tuples (evidence runs); FALSE: silent (model checking)

NT(t) == IF Notes THEN PrintT(<<"NT">> \o t) ELSE TRUE
Masked(id, prop, sig) == id \in KnownFindings /\ sig /\ (Notes => PrintT(<<"KNOWN-FINDING", prop, id>>))

Writes(e)         == SeqToSet(e.writes)
PodWrites(e, v)   == { w \in Writes(e) : w.kind = "Pod" /\ w.verb = v }
PodCreates(e)     == PodWrites(e, "create")
PodDeletes(e)     == PodWrites(e, "delete")
DeletedIds(e)     == { w.id : w \in PodDeletes(e) }
StatusWrites(e, k) == { w \in Writes(e) : w.kind = k /\ w.verb = "status" }
AllOK(W)          == \A w \in W : w.ok

IsERS(s, e) == e.ev = "ERSReconcile" /\ HasRS(s, e.rs) /\ HasEDS(s, RSOf(s, e.rs).owner)
IsEDS(s, e) == e.ev = "EDSReconcile" /\ HasEDS(s, e.key)

GoodStrat(d) == /\ d.defaulted
                /\ ~d.strat.maxUnavailable.bad /\ ~d.strat.maxSchedFailure.bad /\ ~d.strat.slowStartIncrease.bad
                /\ d.strat.slowStartInterval >= 1 /\ d.strat.frequency >= 0

\* a full sync reached the status write of the replica set
FullSync(e) == \E w \in StatusWrites(e, "ERS") : w.id = e.rs

-----------------------------------------------------------------------------
(* per-node bookkeeping shared by C01 / C03 / C04 / C08 / C09 / C10 *)

CountOn(s, d, n)  == { p \in PodsOn(s, d, n) : Countable(p) }
FailedOn(s, d, n) == { p \in PodsOn(s, d, n) : p.phase = "Failed" }
KP(s, d, n)       == KeptCandidates(CountOn(s, d, n))

\* a delete of pod p by a sync of (d, r, role) that is NOT clean-up: p is the one pod the controller keeps
\* for a targeted node (not a duplicate, not on an ineligible node, not failed).
UpdDeletes(s, e, d, r, role) ==
    { w \in PodDeletes(e) : HasPod(s, w.id) /\
        LET p == PodOf(s, w.id) IN
          /\ p \in OwnPods(s, d) /\ Countable(p)
          /\ p.node \in Targeted(s, d, r, role)
          /\ KP(s, d, p.node) = {p}
          /\ FailedOn(s, d, p.node) = {} }

-----------------------------------------------------------------------------
(* C01 - at most one daemon pod per node, only on eligible nodes *)

C01_Create(s, e, d, r) ==
    \A w \in PodCreates(e) :
        /\ NT(<<"C01", "create", w.node>>)
        /\ HasNode(s, w.node)
        /\ Fits(s, w.node, r.tmpl)
        /\ \A p \in PodsOn(s, d, w.node) : p.phase \in {"Failed", "Unknown"}
        /\ \A w2 \in PodCreates(e) : w2.node = w.node => w2.seq = w.seq

C01_Dedup(s, e, d, r, role) ==
    (role \in {"active", "canary"} /\ FullSync(e) /\ GoodStrat(d)) =>
      \A n \in (IF role = "active" THEN Targeted(s, d, r, role) ELSE CNodes(d) \cap Targeted(s, d, r, role)) :
        LET C == CountOn(s, d, n)
            K == { p \in C : ~p.term /\ p.id \notin DeletedIds(e) }
        IN (Cardinality(C) >= 2 /\ FailedOn(s, d, n) = {}) =>
             /\ NT(<<"C01", "dedup", Cardinality(C)>>)
             /\ Cardinality(K) <= 1
             /\ \A k \in K : k \in KeptCandidates(C)

C01_Ineligible(s, e, d, r, role) ==
    (role = "active" /\ FullSync(e) /\ GoodStrat(d)) =>
      \A p \in OwnPods(s, d) :
        (~p.term /\ p.phase # "Unknown" /\ p.node # "" /\ p.node \notin CNodes(d) /\ ~Fits(s, p.node, r.tmpl))
          => (NT(<<"C01", "ineligible">>) /\ p.id \in DeletedIds(e))

\* "pods in Unknown phase are never touched": read as never deleted (the clause sits among the deletion rules; removing the
\* canary label from such a pod after a promotion is not held against the controller)
C01_UnknownUntouched(s, e) ==
    \A w \in Writes(e) : (w.kind = "Pod" /\ w.verb = "delete" /\ HasPod(s, w.id)) => PodOf(s, w.id).phase # "Unknown"

C01_Step(s, e) ==
    IsERS(s, e) =>
      LET r == RSOf(s, e.rs)  d == EDSOf(s, r.owner)  role == Role(d, r) IN
        /\ C01_Create(s, e, d, r)
        /\ C01_Dedup(s, e, d, r, role)
        /\ C01_Ineligible(s, e, d, r, role)
        /\ C01_UnknownUntouched(s, e)

-----------------------------------------------------------------------------
(* C03 - rolling update respects maxUnavailable *)

C03_Budget(s, e, d, r) ==
    LET T      == Targeted(s, d, r, "active")
        StuckN == { n \in T : \E p \in KP(s, d, n) : p.stuck }
        \* a node whose pod is outdated and already terminating is a node without an available pod (its own category in the statement)
        AvailN == { n \in T : \E p \in KP(s, d, n) : p.ready /\ ~p.stuck /\ ~(p.term /\ p.hash # r.tmpl) }
        maxU   == Resolve(d.strat.maxUnavailable, Cardinality(T))
        maxSF  == Resolve(d.strat.maxSchedFailure, Cardinality(T))
        U      == Cardinality(T) - Min2(Cardinality(StuckN), maxSF) - Cardinality(AvailN)
        UD     == UpdDeletes(s, e, d, r, "active")
        UDav   == { w \in UD : PodOf(s, w.id).ready }
    IN  (UD # {}) =>
          /\ NT(<<"C03", Cardinality(T), U, maxU, Cardinality(UD), Cardinality(UDav)>>)
          /\ Cardinality(UDav) <= Max2(0, maxU - U)
          /\ Cardinality(UD) <= Max2(0, maxU)

C03_Step(s, e) ==
    IsERS(s, e) =>
      LET r == RSOf(s, e.rs)  d == EDSOf(s, r.owner) IN
        (Role(d, r) = "active" /\ GoodStrat(d)) => C03_Budget(s, e, d, r)

-----------------------------------------------------------------------------
(* C04 - canary blast radius *)

ActiveRS(s, d) == IF d.active > 0 /\ HasRS(s, d.active) THEN {RSOf(s, d.active)} ELSE {}

\* creations by a replica set that is not the active one happen only on canary nodes and only by the canary RS
C04_Creates(s, e, d, r, role) ==
    (role # "active") =>
      \A w \in PodCreates(e) :
        /\ NT(<<"C04", "create", role>>)
        /\ role = "canary"
        /\ w.node \in CNodes(d)

\* the active replica set leaves the canary nodes alone
C04_ActiveHandsOff(s, e, d, role) ==
    (role = "active" /\ d.hasCanary) =>
      \A w \in PodCreates(e) \cup PodDeletes(e) : (NT(<<"C04", "active", w.verb>>) /\ w.node \notin CNodes(d))

\* nobody but the active replica set removes the one active-template pod of a non-canary node served by it
C04_OthersServed(s, e, d, r, role) ==
    (role # "active") =>
      \A w \in PodDeletes(e) : HasPod(s, w.id) =>
        LET p == PodOf(s, w.id) IN
          \/ p.node \in CNodes(d)
          \/ ~HasNode(s, p.node)
          \/ ~Countable(p)
          \/ p \notin OwnPods(s, d)
          \/ \A a \in ActiveRS(s, d) : ~Fits(s, p.node, a.tmpl)
          \/ KP(s, d, p.node) # {p}
          \/ FailedOn(s, d, p.node) # {}          \* a failed pod held back by the back-off takes part in the de-duplication
          \/ Masked("F-narrowing", "C04", role = "canary" /\ ~Fits(s, p.node, r.tmpl))

\* canary label: every pod of the canary RS the sync read on a canary node gets (or has) the label ...
C04_LabelOn(s, e, d, r, role) ==
    \* (a sync that finds the ExtendedDaemonSet not defaulted - the user has just edited its strategy - only records that and requeues)
    (role = "canary" /\ FullSync(e) /\ GoodStrat(d) /\ AllOK({ w \in Writes(e) : w.kind = "Pod" /\ w.verb = "patch" })) =>
      \A p \in OwnPods(s, d) :
        (p.rsl = r.id /\ p.node \in CNodes(d) /\ Fits(s, p.node, r.tmpl) /\ Countable(p) /\ KP(s, d, p.node) = {p} /\ ~p.clabel /\ ~p.term
           /\ FailedOn(s, d, p.node) = {})
          => (NT(<<"C04", "label+">>) /\ \E w \in PodWrites(e, "patch") : w.id = p.id /\ w.what = "+clabel")

\* ... and loses it once the replica set has become active (the code cleans up during the first 5 units)
C04_LabelOff(s, e, d, r, role) ==
    (role = "active" /\ FullSync(e) /\ GoodStrat(d)
       /\ ~(r.conds.Active.present /\ r.conds.Active.true /\ r.conds.Active.ltt >= 4)
       /\ AllOK({ w \in Writes(e) : w.kind = "Pod" /\ w.verb = "patch" })) =>
      \A p \in Pods(s) :
        (p.ns = r.ns /\ p.rsl = r.id /\ p.clabel)
          => (NT(<<"C04", "label-">>) /\ \E w \in PodWrites(e, "patch") : w.id = p.id /\ w.what = "-clabel")

\* the EDS reconcile never extends the canary node list beyond the resolved replicas
C04_ListBound(s, e) ==
    IsEDS(s, e) =>
      LET d == EDSOf(s, e.key) IN
        (HasEDS(e.state, e.key) /\ d.strat.canary /\ d.defaulted /\ ~d.strat.cReplicas.bad) =>
          LET d2   == EDSOf(e.state, e.key)
              old  == CNodes(d)
              new  == CNodes(d2)
              fitsOf(t) == Cardinality({ n \in NodeNames(s) : Fits(s, n, t) })
              bases == { d.desired, Cardinality(NodeNames(s)) } \cup { fitsOf(x.tmpl) : x \in OwnRS(s, d) }
              cap  == Resolve(d.strat.cReplicas, CHOOSE b \in bases : \A c \in bases : b >= c)
          IN (new \ old # {}) => (NT(<<"C04", "list", Cardinality(new), cap>>) /\ Cardinality(new) <= Max2(cap, Cardinality(old)))

C04_Step(s, e) ==
    /\ C04_ListBound(s, e)
    /\ IsERS(s, e) =>
         LET r == RSOf(s, e.rs)  d == EDSOf(s, r.owner)  role == Role(d, r) IN
           /\ C04_Creates(s, e, d, r, role)
           /\ C04_ActiveHandsOff(s, e, d, role)
           /\ C04_OthersServed(s, e, d, r, role)
           /\ C04_LabelOn(s, e, d, r, role)
           /\ C04_LabelOff(s, e, d, r, role)

-----------------------------------------------------------------------------
(* C05 - promotion rule *)

CanaryPausedIn(d, u) == d.cPaused \/ u.conds.CanaryPaused.true
CanaryFailedIn(u)    == u.conds.CanaryFailed.true

PromotionAllowed(s, d, u) ==
    \/ ~d.strat.canary
    \/ d.active = -1                          \* recorded active replica set no longer exists
    \/ d.cValid = u.id
    \/ /\ d.strat.cMode = "auto"
       /\ d.strat.cDuration >= 0 /\ u.age >= d.strat.cDuration
       /\ (d.strat.cNoRestarts < 0 \/ ~u.conds.PodRestarting.present \/ u.conds.PodRestarting.lut >= d.strat.cNoRestarts)
       /\ ~(CanaryPausedIn(d, u) /\ ~d.cUnpaused)
       /\ ~CanaryFailedIn(u)

C05_Step(s, e) ==
    (IsEDS(s, e) /\ HasEDS(e.state, e.key)) =>
      LET d == EDSOf(s, e.key)  d2 == EDSOf(e.state, e.key) IN
        (d2.active # d.active /\ d.active # 0) =>
          /\ NT(<<"C05", d.strat.canary, d.strat.cMode, d.active, d2.active>>)
          /\ d2.active > 0 /\ HasRS(s, d2.active)
          /\ LET u == RSOf(s, d2.active) IN
               /\ u.owner = d.key
               /\ u.hashAnn = d.tmpl
               /\ PromotionAllowed(s, d, u)

-----------------------------------------------------------------------------
(* C07 - rollback of a failed canary (safety part) *)

C07_Step(s, e) ==
    /\ (IsEDS(s, e) /\ HasEDS(e.state, e.key)) =>
         LET d == EDSOf(s, e.key)  d2 == EDSOf(e.state, e.key)  U == UpToDateRS(s, d) IN
           (d.defaulted /\ d.strat.canary /\ Cardinality(U) = 1 /\ d.active > 0 /\ HasRS(s, d.active) /\
              (\E u \in U : CanaryFailedIn(u) /\ u.id # d.active /\ d.cValid # u.id)) =>   \* (an explicit validation of that replica set wins: C05)
             /\ NT(<<"C07", "rollback">>)
             /\ d2.active = d.active
                  \/ Masked("F-promote-failed", "C07", TRUE)
             /\ (AllOK(StatusWrites(e, "EDS")) /\ ~e.res.err) => ~d2.hasCanary
             /\ (AllOK(Writes(e)) /\ ~e.res.err) => d2.tmpl = RSOf(s, d.active).tmpl
    \* a failed replica set is kept two units and deleted only once it reports no pods
    /\ IsEDS(s, e) =>
         \A w \in Writes(e) : (w.kind = "ERS" /\ w.verb = "delete" /\ HasRS(s, w.id)) =>
            LET x == RSOf(s, w.id) IN
              /\ x.desired + x.current + x.ready + x.available = 0
              /\ CanaryFailedIn(x) => (NT(<<"C07", "gc">>) /\ x.conds.CanaryFailed.ltt >= 2)

-----------------------------------------------------------------------------
(* C08 - pause / freeze *)

Missing(s, d, r) == { n \in Targeted(s, d, r, "active") : PodsOn(s, d, n) = {} }

StateFn(d2, canaryActive, failed, paused) ==
    IF failed THEN "Canary Failed"
    ELSE IF canaryActive THEN (IF paused THEN "Canary Paused" ELSE "Canary")
    ELSE IF d2.frozen THEN "Rollout frozen"
    ELSE IF d2.ruPaused THEN "RollingUpdate Paused"
    ELSE "Running"

\* An explicit validation is obeyed: the ExtendedDaemonSet reconcile that reads canary-valid = the (single) up-to-date replica
\* set makes it the active one, whatever the pause state ("a canary resumes on unpause or explicit validation", C08; "validate
\* promotes exactly the replica set that was the canary when the command ran", C19).
ValidationObeyed(s, e) ==
    (IsEDS(s, e) /\ HasEDS(e.state, e.key)) =>
      LET d == EDSOf(s, e.key)  d2 == EDSOf(e.state, e.key)  U == UpToDateRS(s, d) IN
        (d.defaulted /\ d.strat.canary /\ Cardinality(U) = 1 /\ (\E u \in U : d.cValid = u.id /\ ~u.deleting)
           /\ AllOK(Writes(e)) /\ ~e.res.err /\ ~e.res.panic) =>
          (NT(<<"C08", "validated", CanaryPausedIn(d, CHOOSE u \in U : TRUE)>>) /\ \E u \in U : d2.active = u.id)

C08_Step(s, e) ==
    /\ ValidationObeyed(s, e)
    /\ IsERS(s, e) =>
      LET r == RSOf(s, e.rs)  d == EDSOf(s, r.owner)  role == Role(d, r) IN
        /\ (role = "active" /\ d.ruPaused /\ GoodStrat(d)) =>
              /\ NT(<<"C08", "paused", Cardinality(Missing(s, d, r))>>)
              /\ UpdDeletes(s, e, d, r, role) = {}
              /\ (~d.frozen /\ FullSync(e) /\ Missing(s, d, r) # {}
                    /\ Resolve(d.strat.slowStartIncrease, Cardinality(Targeted(s, d, r, role))) >= 1 /\ d.strat.maxParallel >= 1)
                   => PodCreates(e) # {}
        /\ (role = "active" /\ d.frozen /\ GoodStrat(d)) =>
              /\ NT(<<"C08", "frozen">>)
              /\ UpdDeletes(s, e, d, r, role) = {}
              /\ PodCreates(e) = {}
        /\ (role = "canary" /\ CanaryPausedIn(d, r) /\ ~d.cUnpaused) =>
              (NT(<<"C08", "cpaused">>) /\ PodCreates(e) = {})
        \* "a canary resumes on unpause": with the unpause annotation (and no pause annotation) a canary that is not failed does not
        \* end a sync paused, whatever its pods look like (unpause overrides pausing, never failing)
        /\ (role = "canary" /\ GoodStrat(d) /\ d.cUnpaused /\ ~d.cPaused /\ HasRS(e.state, r.id) /\ AllOK(StatusWrites(e, "ERS")) /\ FullSync(e)) =>
              LET r2 == RSOf(e.state, r.id) IN
                (~r2.conds.CanaryFailed.true) => (NT(<<"C08", "unpaused">>) /\ ~r2.conds.CanaryPaused.true)
        \* a sync that itself ends paused or failed creates nothing (shared with C06)
        /\ (role = "canary" /\ HasRS(e.state, r.id) /\ AllOK(StatusWrites(e, "ERS")) /\ FullSync(e)) =>
              LET r2 == RSOf(e.state, r.id) IN
                (r2.conds.CanaryPaused.true \/ r2.conds.CanaryFailed.true) => (NT(<<"C08", "selfpaused">>) /\ PodCreates(e) = {})

-----------------------------------------------------------------------------
(* C09 - slow start and spacing (the spacing clause needs history: see Trace.tla) *)

\* "t is the time since its Active condition last became true": the condition has to follow the role - a replica set that is synced
\* in a role other than active does not keep Active = True (else a later re-activation would count the ramp from the first one)
C09_Deactivated(s, e) ==
    (IsERS(s, e) /\ HasRS(e.state, e.rs) /\ FullSync(e) /\ AllOK(StatusWrites(e, "ERS"))) =>
      LET r == RSOf(s, e.rs)  d == EDSOf(s, r.owner) IN
        (Role(d, r) = "unknown" /\ d.defaulted /\ r.conds.Active.true) =>
           (NT(<<"C09", "deactivated">>) /\ ~RSOf(e.state, e.rs).conds.Active.true)

C09_Step(s, e) ==
    /\ C09_Deactivated(s, e)
    /\ IsERS(s, e) =>
      LET r == RSOf(s, e.rs)  d == EDSOf(s, r.owner)  role == Role(d, r) IN
        (role = "active" /\ GoodStrat(d)) =>
          LET T     == Targeted(s, d, r, role)
              incr  == Resolve(d.strat.slowStartIncrease, Cardinality(T))
              t     == IF r.conds.Active.present /\ r.conds.Active.true THEN r.conds.Active.ltt ELSE 0
              ramp  == (1 + (t \div d.strat.slowStartInterval)) * incr
              bound == Min2(d.strat.maxParallel, ramp)
          IN /\ (PodCreates(e) # {}) => (NT(<<"C09", Cardinality(PodCreates(e)), bound>>) /\ Cardinality(PodCreates(e)) <= Max2(0, bound))
             /\ Cardinality(UpdDeletes(s, e, d, r, role)) <= Max2(0, Resolve(d.strat.maxUnavailable, Cardinality(T)))

-----------------------------------------------------------------------------
(* C10 - created pods are pinned, labelled, resolved, and stable under the controller's comparison *)

ValidSettingFor(s, d, n) ==
    { x \in SeqToSet(s.settings) : x.ns = d.ns /\ x.ref = d.name /\ x.status = "valid" /\ SetMatches(s, x, n) }

ExpectedRes(s, d, n) ==
    LET nd == NodeOf(s, n)  V == ValidSettingFor(s, d, n) IN
      IF nd.override \in {"r1", "r2", "r3"} THEN {nd.override}
      ELSE IF V # {} THEN { x.res : x \in V }
      ELSE {"tmpl"}

\* the setting the replica-set sync applies to a node: the FIRST valid one, in list order (s.settings is sorted by namespace/name as
\* the API server lists them), that selects the node.  More than one valid setting can select a node only while statuses are stale
\* (C18); the comparison then follows the first one, so a pod built from another valid setting is rightly replaced.
AppliedRes(s, d, n) ==
    LET nd == NodeOf(s, n)
        I  == { i \in DOMAIN s.settings : s.settings[i].ns = d.ns /\ s.settings[i].ref = d.name /\ s.settings[i].status = "valid"
                                           /\ SetMatches(s, s.settings[i], n) }
    IN IF nd.override \in {"r1", "r2", "r3"} THEN {nd.override}
       ELSE IF I = {} THEN {"tmpl"}
       ELSE { s.settings[CHOOSE i \in I : \A j \in I : i <= j].res }

C10_Step(s, e) ==
    IsERS(s, e) =>
      LET r == RSOf(s, e.rs)  d == EDSOf(s, r.owner)  role == Role(d, r) IN
        /\ \A w \in PodCreates(e) : (w.ok /\ HasPod(e.state, w.id)) =>
             LET p == PodOf(e.state, w.id) IN
               /\ NT(<<"C10", "create", p.pin, p.res>>)
               /\ p.pin \in {"nodeName", "affinity"} /\ p.pinAll /\ p.node = w.node
               /\ p.owner = "rs" /\ p.ownerRS = r.id
               /\ p.ns = d.ns /\ p.eds = d.name /\ p.rsl = r.id
               /\ p.hash = r.tmpl /\ p.hash = r.gen /\ p.hash = r.hashAnn
               /\ p.tol
               /\ HasNode(s, w.node) => p.res \in ExpectedRes(s, d, w.node)
               /\ HasNode(s, w.node) => p.res2 = (IF NodeOf(s, w.node).override2 \in {"r1", "r2", "r3"} THEN NodeOf(s, w.node).override2 ELSE "tmpl")
               \* round trip: the pod just created is recognised as up to date for the same inputs (the node-annotation hash it
               \* carries is the one the comparison computes for the node, well-formed annotations or not)
               /\ HasNode(s, w.node) => p.nodeHash = "ok"
        \* stability: a pod that is up to date for unchanged inputs is never replaced
        /\ \A w \in UpdDeletes(s, e, d, r, role) :
             LET p == PodOf(s, w.id) IN
               (role \in {"active", "canary"} /\ p.hash = r.tmpl /\ p.nodeHash = "ok" /\ p.res \in AppliedRes(s, d, p.node)) =>
                  \/ ~NT(<<"C10", "spurious">>)
                  \/ Masked("F-ann-vs-setting", "C10", NodeOf(s, p.node).override \in {"r1", "r2", "r3"} /\ ValidSettingFor(s, d, p.node) # {})


-----------------------------------------------------------------------------
(* C02 - convergence: evaluated on the last state of a convergence tail of the real code            *)
(* (fair rounds: tick, kubelet progress, every reconciler once) and on the model's fixpoints.      *)

LivePods(s, d, n) == { p \in PodsOn(s, d, n) : p.phase # "Unknown" }

TmplFor(s, d, n) ==
    IF d.hasCanary /\ HasRS(s, d.canaryRS) /\ n \in CNodes(d) THEN RSOf(s, d.canaryRS).tmpl ELSE RSOf(s, d.active).tmpl

\* (a defaulted ExtendedDaemonSet at a quiet, error-free fixpoint HAS an active replica set: a fixpoint without one - e.g. after the
\* active replica set was deleted - is not convergence)
Converged(s, d) ==
    /\ d.active > 0 /\ HasRS(s, d.active)
    /\ \A n \in NodeNames(s) :
           IF Fits(s, n, TmplFor(s, d, n))
           THEN \E p \in LivePods(s, d, n) : LivePods(s, d, n) = {p} /\ p.ready /\ ~p.term /\ p.hash = TmplFor(s, d, n)
           ELSE LivePods(s, d, n) = {}
    /\ \A p \in OwnPods(s, d) : (p.phase # "Unknown" /\ p.node # "") => HasNode(s, p.node)
    /\ ~d.hasCanary => RSOf(s, d.active).tmpl = d.tmpl

QuiescentStatus(s, d) ==
    (d.active > 0 /\ HasRS(s, d.active)) =>
      LET elig == { n \in NodeNames(s) : Fits(s, n, TmplFor(s, d, n)) }
          live == { p \in OwnPods(s, d) : p.phase # "Unknown" }
          \* known finding F-stale-nodes seen through the status: a listed canary node that no longer exists / no longer fits is still
          \* counted in the canary replica set's desired
          stale == IF d.hasCanary /\ HasRS(s, d.canaryRS)
                   THEN { n \in CNodes(d) : ~(HasNode(s, n) /\ Fits(s, n, RSOf(s, d.canaryRS).tmpl)) } ELSE {}
      IN /\ \/ d.desired = Cardinality(elig)
            \/ Masked("F-stale-nodes", "C14", stale # {} /\ d.desired > Cardinality(elig) /\ d.desired <= Cardinality(elig) + Cardinality(stale))
         /\ d.current = Cardinality(live)
         /\ d.ready = Cardinality({ p \in live : p.ready })
         /\ d.available = Cardinality({ p \in live : p.ready })
         /\ ~d.hasCanary => d.upToDate = Cardinality({ p \in live : p.hash = d.tmpl })

C02_Step(s, e) ==
    (e.ev = "tailEnd") =>
      /\ NT(<<"C02", e.args.quiet, e.args.rounds>>)
      /\ e.args.quiet = "true"
           \/ Masked("F-ann-vs-setting", "C02", \E d \in EDSs(s) : \E n \in NodeNames(s) : NodeOf(s, n).override \in {"r1", "r2", "r3"} /\ ValidSettingFor(s, d, n) # {})
           \/ Masked("F-narrowing", "C02", \E d \in EDSs(s) : d.hasCanary /\ HasRS(s, d.canaryRS) /\ \E n \in NodeNames(s) : ~Fits(s, n, RSOf(s, d.canaryRS).tmpl) /\ PodsOn(s, d, n) # {})
      \* a reconcile that keeps reporting an error (e.g. not enough valid canary nodes) is not a fixpoint of the
      \* premise "API calls succeed ..."; whether that error is justified is C15's business
      /\ (e.args.quiet = "true" /\ e.args.errs = "0") => \A d \in EDSs(e.state) : d.defaulted => Converged(e.state, d)

C14_Quiescent(s, e) ==
    (e.ev = "tailEnd" /\ e.args.quiet = "true" /\ e.args.errs = "0") =>
      \A d \in EDSs(e.state) : d.defaulted => (NT(<<"C14", "quiescent">>) /\ QuiescentStatus(e.state, d))

-----------------------------------------------------------------------------
(* C12 - an ExtendedDaemonSet only touches its own objects *)

C12_Step(s, e) ==
    /\ IsEDS(s, e) =>
         LET d == EDSOf(s, e.key) IN
           /\ \A w \in Writes(e) :
                /\ NT(<<"C12", "eds", w.kind, w.verb>>)
                /\ \/ (w.kind = "EDS" /\ w.ns = d.ns /\ w.name = d.name)
                   \/ (w.kind = "ERS" /\ w.ns = d.ns /\ w.owner = "ExtendedDaemonSet/" \o d.name /\ w.eds = d.name)
           \* adoption: the replica set recorded as active / canary is its own
           /\ HasEDS(e.state, e.key) =>
                LET d2 == EDSOf(e.state, e.key) IN
                  /\ (d2.active > 0 /\ d2.active # d.active /\ HasRS(s, d2.active)) => RSOf(s, d2.active).owner = d.key
                  /\ (d2.hasCanary /\ d2.canaryRS # d.canaryRS /\ HasRS(s, d2.canaryRS)) => RSOf(s, d2.canaryRS).owner = d.key
    /\ IsERS(s, e) =>
         LET r == RSOf(s, e.rs)  d == EDSOf(s, r.owner) IN
           \A w \in Writes(e) :
             /\ NT(<<"C12", "ers", w.kind, w.verb>>)
             /\ \/ (w.kind = "ERS" /\ w.verb = "status" /\ w.id = r.id)
                \/ /\ w.kind = "Pod" /\ w.ns = d.ns
                   /\ \/ w.eds = d.name
                      \/ (d.oldDS # "" /\ w.owner = "DaemonSet/" \o d.oldDS)
    /\ (e.ev = "PodTemplateReconcile") =>
         \A w \in Writes(e) : w.kind = "PodTemplate" /\ w.ns \o "/" \o w.name = e.key

-----------------------------------------------------------------------------
(* C13 - one replica set per template, faithful, never collected while in use *)

C13_Inv(s) ==
    /\ \A r \in RSs(s) : r.tmpl # "other" => (r.hashAnn = r.tmpl /\ r.gen = r.tmpl)
    /\ \A p \in Pods(s) : (p.owner = "rs" /\ ~p.foreign /\ HasRS(s, p.ownerRS)) => p.hash = RSOf(s, p.ownerRS).tmpl
    /\ \A d \in EDSs(s) : \A t \in { r.tmpl : r \in OwnRS(s, d) } :
          Cardinality({ r \in OwnRS(s, d) : r.tmpl = t /\ ~r.deleting }) <= 1

C13_Step(s, e) ==
    /\ IsEDS(s, e) =>
         LET d == EDSOf(s, e.key) IN
           \A w \in Writes(e) :
             /\ (w.kind = "ERS" /\ w.verb = "create") =>
                  /\ NT(<<"C13", "create", d.tmpl>>)
                  /\ UpToDateRS(s, d) = {}
                  /\ w.hash = d.tmpl
             /\ (w.kind = "ERS" /\ w.verb = "delete" /\ HasRS(s, w.id) /\ HasEDS(e.state, e.key)) =>
                  LET x == RSOf(s, w.id)  d2 == EDSOf(e.state, e.key) IN
                    /\ NT(<<"C13", "delete">>)
                    /\ x.id # d2.active
                    /\ x.name # d2.activeName     \* (the id of a recorded active replica set that no longer exists projects to -1)
                    /\ x.hashAnn # d.tmpl
                    /\ x.desired + x.current + x.ready + x.available = 0
    /\ (e.ev = "PodTemplateReconcile" /\ HasEDS(s, e.key) /\ AllOK(Writes(e)) /\ ~e.res.err) =>
         LET d == EDSOf(s, e.key) IN
           \E t \in SeqToSet(e.state.ptmpl) : t.ns = d.ns /\ t.name = d.name /\ t.tmpl = d.tmpl /\ t.hash = d.tmpl /\ NT(<<"C13", "ptmpl">>)

-----------------------------------------------------------------------------
(* C14 - status tells the truth *)

SumOver(S, f(_)) ==
    LET RECURSIVE Sum(_)
        Sum(X) == IF X = {} THEN 0 ELSE LET x == CHOOSE y \in X : TRUE IN f(x) + Sum(X \ {x})
    IN Sum(S)

C14_EDS(s, e) ==
    (IsEDS(s, e) /\ HasEDS(e.state, e.key)) =>
      LET d == EDSOf(s, e.key)  d2 == EDSOf(e.state, e.key)  U == UpToDateRS(s, d)  Own == OwnRS(s, d) IN
        (d.defaulted /\ ~e.res.err /\ ~e.res.requeue /\ Cardinality(U) = 1 /\ d2.active > 0 /\ HasRS(s, d2.active) /\ AllOK(Writes(e))) =>
          LET u   == CHOOSE x \in U : TRUE
              cur == RSOf(s, d2.active)
              failed == d.strat.canary /\ CanaryFailedIn(u)
              paused == CanaryPausedIn(d, u)
              cact   == d.strat.canary /\ ~failed /\ cur.id # u.id
          IN /\ NT(<<"C14", "eds", cact, failed, paused>>)
             /\ d2.current   = SumOver(Own, LAMBDA x : x.current)
             /\ d2.ready     = SumOver(Own, LAMBDA x : x.ready)
             /\ d2.available = SumOver(Own, LAMBDA x : x.available)
             /\ d2.desired   = cur.desired + (IF cact THEN u.desired ELSE 0)
             /\ d2.upToDate  = (IF cact THEN u.current ELSE cur.current)
             /\ d.strat.canary =>
                  /\ d2.state = StateFn(d2, cact, failed, paused)
                  /\ (cact /\ paused) => d2.reason # ""
                  /\ ~(cact /\ paused) => d2.reason = ""
                  /\ d2.hasCanary = cact
                  /\ cact => d2.canaryRS = u.id
                  /\ d2.condFailed.true = failed
                  /\ d2.condPaused.true = (paused /\ ~failed)
             /\ ~d.strat.canary => d2.state = StateFn(d, FALSE, FALSE, FALSE)

C14_ERS(s, e) ==
    (IsERS(s, e) /\ HasRS(e.state, e.rs) /\ FullSync(e) /\ AllOK(StatusWrites(e, "ERS"))) =>
      LET r == RSOf(s, e.rs)  d == EDSOf(s, r.owner)  r2 == RSOf(e.state, e.rs) IN
        (Role(d, r) \in {"active", "canary"} /\ GoodStrat(d)) =>
          /\ NT(<<"C14", "ers", r2.desired, r2.current, r2.ready, r2.available>>)
          /\ 0 <= r2.available /\ r2.available <= r2.ready /\ r2.ready <= r2.current /\ r2.current <= r2.desired
          \* desired (which the ExtendedDaemonSet copies) is the number of nodes the replica set targets, whatever state their pods are in
          /\ Role(d, r) = "active" => r2.desired = Cardinality(Targeted(s, d, r, "active"))

C14_Step(s, e) == C14_EDS(s, e) /\ C14_ERS(s, e) /\ C14_Quiescent(s, e)

-----------------------------------------------------------------------------
(* C15 - canary nodes valid, distinct, stable, as many as requested *)

C15_Wants(s, d, active, canary) ==
    LET fitsOf(t) == Cardinality({ n \in NodeNames(s) : Fits(s, n, t) })
        bases == { fitsOf(x.tmpl) : x \in { y \in OwnRS(s, d) : y.id \in {active, canary} } } \cup { d.desired }
    IN { Resolve(d.strat.cReplicas, b) : b \in bases }

C15_Step(s, e) ==
    (IsEDS(s, e) /\ HasEDS(e.state, e.key)) =>
      LET d == EDSOf(s, e.key)  d2 == EDSOf(e.state, e.key) IN
        \* (a reconcile that only defaults the object, or only creates the replica set, does not evaluate the canary)
        /\ (d.defaulted /\ Cardinality(UpToDateRS(s, d)) = 1 /\ d.strat.canary /\ d2.hasCanary /\ HasRS(s, d2.canaryRS) /\ ~d.strat.cReplicas.bad) =>
              LET u     == RSOf(s, d2.canaryRS)
                  old   == CNodes(d)
                  new   == CNodes(d2)
                  Valid(n) == HasNode(s, n) /\ (d.strat.cSelector => NodeOf(s, n).csel) /\ Fits(s, n, u.tmpl)
                  wants == C15_Wants(s, d, d2.active, d2.canaryRS)
              IN /\ NT(<<"C15", Cardinality(old), Cardinality(new)>>)
                 /\ Cardinality(new) = Len(d2.cNodes)                         \* distinct
                 /\ \A n \in new \ old : Valid(n)                             \* additions are valid
                 /\ \A n \in new : Valid(n)
                      \/ Masked("F-stale-nodes", "C15", n \in old)
                 /\ \A n \in old : (Valid(n) /\ (d.hasCanary /\ d.canaryRS = d2.canaryRS)) => n \in new   \* stable
                 /\ \/ e.res.err
                    \/ Cardinality(new) \in wants
                    \* "never exceeds it through the controller's own choice": a list that is longer than requested because the
                    \* user lowered replicas (or the base of a percentage shrank) keeps its still-valid nodes; nothing is added
                    \/ (new \subseteq old /\ \E w \in wants : Cardinality(new) > w)
                    \/ Masked("F-stale-nodes", "C15", Cardinality(new) = Cardinality(old) /\ \E n \in old : ~Valid(n))
                 \* additions spread over the values of the anti-affinity keys: no value that receives a new node ends up with
                 \* more than ceil(wanted / number of values among the selectable nodes)
                 /\ (d.strat.cAntiAffinity /\ new \ old # {}) =>
                      LET Sel    == { n \in NodeNames(s) : d.strat.cSelector => NodeOf(s, n).csel }
                          zones  == { NodeOf(s, n).zone : n \in Sel }
                          want   == CHOOSE w \in wants : \A w2 \in wants : w >= w2
                          quota  == (want + Cardinality(zones) - 1) \div Cardinality(zones)
                      IN \A n \in new \ old :
                           /\ NT(<<"C15", "spread", quota>>)
                           /\ Cardinality({ m \in new : HasNode(s, m) /\ NodeOf(s, m).zone = NodeOf(s, n).zone }) <= quota
                 \* additions prefer the nodes whose daemon pods restarted least (stated without anti-affinity, where the
                 \* preference is not constrained by the quota)
                 /\ (~d.strat.cAntiAffinity /\ new \ old # {}) =>
                      LET R(n) == SumOver({ p \in OwnPods(s, d) : p.node = n /\ p.sched }, LAMBDA p : p.restarts) IN
                        \A n \in new \ old : \A m \in NodeNames(s) \ new :
                           (Valid(m) /\ m \notin old) => (NT(<<"C15", "restarts", R(n), R(m)>>) /\ R(n) <= R(m))
        \* "not enough nodes" is reported only when it is true
        /\ (e.res.errKind = "nodes" /\ d.strat.canary /\ Cardinality(UpToDateRS(s, d)) = 1 /\ ~d.strat.cReplicas.bad) =>
              LET u == CHOOSE x \in UpToDateRS(s, d) : TRUE
                  Valid(n) == HasNode(s, n) /\ (d.strat.cSelector => NodeOf(s, n).csel) /\ Fits(s, n, u.tmpl)
                  wants == C15_Wants(s, d, d.active, u.id)
              IN /\ NT(<<"C15", "err", Cardinality({ n \in NodeNames(s) : Valid(n) })>>)
                 /\ Cardinality({ n \in NodeNames(s) : Valid(n) }) < (CHOOSE w \in wants : \A w2 \in wants : w >= w2)

-----------------------------------------------------------------------------
(* C16 - no accepted spec crashes the controller (history part: monitored on every step) *)

C16_Step(s, e) ==
    \/ ~e.res.panic
    \/ Masked("F-canary-removed", "C16", IsERS(s, e) /\ ~EDSOf(s, RSOf(s, e.rs).owner).strat.canary)

-----------------------------------------------------------------------------
(* C17 - no error of a parallel pod operation is lost *)

C17_Step(s, e) ==
    (IsERS(s, e) /\ HasRS(e.state, e.rs)) =>
      LET r2 == RSOf(e.state, e.rs)
          failedOps == { w \in Writes(e) : w.kind = "Pod" /\ w.verb \in {"create", "delete"} /\ ~w.ok }
      IN (failedOps # {}) =>
           /\ NT(<<"C17", Cardinality(failedOps), e.res.nErrs>>)
           /\ AllOK(StatusWrites(e, "ERS")) => e.res.err        \* reflected in the error the sync reports ...
           /\ AllOK(StatusWrites(e, "ERS")) => e.res.nErrs >= Cardinality(failedOps)   \* ... every one of them
           /\ (AllOK(StatusWrites(e, "ERS")) /\ FullSync(e)) =>   \* ... and in the conditions
                (r2.conds.ReconcileError.true \/ (r2.conds.PodsCleanupDone.present /\ ~r2.conds.PodsCleanupDone.true))


-----------------------------------------------------------------------------
(* C19 - kubectl-eds commands change only what they document; the controller obeys them *)

\* everything but the ExtendedDaemonSet d.key is as before
RestSame(s, t, key) ==
    /\ t.nodes = s.nodes /\ t.pods = s.pods /\ t.settings = s.settings /\ t.ptmpl = s.ptmpl
    /\ { x \in EDSs(t) : x.key # key } = { x \in EDSs(s) : x.key # key }

C19_Cmd(s, e) ==
    (e.ev = "Cmd" /\ HasEDS(s, e.key) /\ HasEDS(e.state, e.key)) =>
      LET d == EDSOf(s, e.key)  d2 == EDSOf(e.state, e.key)  cmd == e.args.v
          refused   == e.res.err /\ Writes(e) = {}
          unchanged == e.state.nodes = s.nodes /\ e.state.pods = s.pods /\ e.state.rs = s.rs /\ e.state.eds = s.eds
          canaryOK  == d.strat.canary /\ d.hasCanary
          onePatch  == Cardinality(Writes(e)) = 1 /\ \A w \in Writes(e) : w.kind = "EDS" /\ w.verb = "patch" /\ w.ns = d.ns /\ w.name = d.name /\ w.ok
      IN /\ NT(<<"C19", cmd, e.res.err>>)
         /\ refused => unchanged
         /\ ~e.res.err =>
              CASE cmd = "canary-pause" ->
                     /\ canaryOK /\ onePatch /\ RestSame(s, e.state, d.key) /\ e.state.rs = s.rs
                     /\ d2 = [d EXCEPT !.cPaused = TRUE, !.cUnpaused = FALSE]
                [] cmd = "canary-unpause" ->
                     /\ canaryOK /\ onePatch /\ RestSame(s, e.state, d.key) /\ e.state.rs = s.rs
                     /\ d2 = [d EXCEPT !.cPaused = FALSE, !.cUnpaused = TRUE]
                [] cmd = "canary-validate" ->
                     /\ d.hasCanary /\ onePatch /\ RestSame(s, e.state, d.key) /\ e.state.rs = s.rs
                     /\ d2 = [d EXCEPT !.cValid = d.canaryRS]
                [] cmd = "canary-fail" ->
                     /\ canaryOK /\ e.state.eds = s.eds /\ RestSame(s, e.state, d.key)
                     /\ Cardinality(Writes(e)) = 1 /\ \A w \in Writes(e) : w.kind = "ERS" /\ w.verb = "status" /\ w.id = d.canaryRS /\ w.ok
                     /\ \A x \in RSs(s) : x.id # d.canaryRS => x \in RSs(e.state)
                     /\ HasRS(s, d.canaryRS) /\ HasRS(e.state, d.canaryRS) =>
                          LET x == RSOf(s, d.canaryRS)  x2 == RSOf(e.state, d.canaryRS) IN
                            /\ x2.conds.CanaryFailed.true
                            /\ [x2 EXCEPT !.conds = [@ EXCEPT !.CanaryFailed = x.conds.CanaryFailed]] = x
                [] cmd = "ru-pause" ->
                     /\ ~d.hasCanary /\ onePatch /\ RestSame(s, e.state, d.key) /\ e.state.rs = s.rs /\ d2 = [d EXCEPT !.ruPaused = TRUE]
                [] cmd = "ru-unpause" ->
                     /\ ~d.hasCanary /\ onePatch /\ RestSame(s, e.state, d.key) /\ e.state.rs = s.rs /\ d2 = [d EXCEPT !.ruPaused = FALSE]
                [] cmd = "freeze" ->
                     /\ ~d.hasCanary /\ onePatch /\ RestSame(s, e.state, d.key) /\ e.state.rs = s.rs /\ d2 = [d EXCEPT !.frozen = TRUE]
                [] cmd = "unfreeze" ->
                     /\ ~d.hasCanary /\ onePatch /\ RestSame(s, e.state, d.key) /\ e.state.rs = s.rs /\ d2 = [d EXCEPT !.frozen = FALSE]
                [] OTHER -> FALSE
         \* a refusal is justified: the precondition does not hold, or the command would change nothing
         /\ refused =>
              CASE cmd = "canary-pause"    -> ~canaryOK \/ d.cPaused
                [] cmd = "canary-unpause"  -> ~canaryOK \/ ~d.cPaused
                [] cmd = "canary-validate" -> ~d.hasCanary \/ d.cValid = d.canaryRS
                [] cmd = "canary-fail"     -> ~canaryOK \/ ~HasRS(s, d.canaryRS)
                [] cmd = "ru-pause"        -> d.hasCanary \/ d.ruPaused
                [] cmd = "ru-unpause"      -> d.hasCanary \/ ~d.ruPaused
                [] cmd = "freeze"          -> d.hasCanary \/ d.frozen
                [] cmd = "unfreeze"        -> d.hasCanary \/ ~d.frozen
                [] OTHER -> TRUE
         \* a command whose precondition does not hold refuses to act
         /\ (cmd \in {"canary-pause", "canary-unpause", "canary-fail"} /\ ~canaryOK) => refused
         /\ (cmd = "canary-validate" /\ ~d.hasCanary) => refused
         /\ (cmd \in {"ru-pause", "ru-unpause", "freeze", "unfreeze"} /\ d.hasCanary) => refused

\* the controller's next reconciles interpret the commands as documented: the state function (pause -> Canary Paused,
\* unpause -> Canary), promotion of exactly the validated replica set, rollback after fail
C19_Step(s, e) == C19_Cmd(s, e) /\ C14_EDS(s, e) /\ C05_Step(s, e) /\ C07_Step(s, e) /\ ValidationObeyed(s, e)


-----------------------------------------------------------------------------
(* C11 - faults and crashes: every safety formula on every step of the faulted run (Trace.tla conjoins them), and   *)
(* the final state after failure-free convergence equals the final state of the failure-free run, modulo names and *)
(* instants                                                                                                        *)

FinalAbs(s) ==
    [ pods |-> { <<p.ns, p.node, p.hash, p.ready, p.phase, p.res, p.clabel>> : p \in { q \in Pods(s) : ~q.term } },
      rs   |-> { <<r.ns, r.tmpl, r.status, r.desired, r.current, r.ready, r.available>> : r \in RSs(s) },
      eds  |-> { <<d.key, d.tmpl, d.hasCanary, CNodes(d), d.state, d.desired, d.current, d.ready, d.available, d.upToDate,
                   IF d.active > 0 /\ HasRS(s, d.active) THEN RSOf(s, d.active).tmpl ELSE "">> : d \in EDSs(s) } ]

C11_Final(ref, e) ==
    (e.ev = "faultEnd") =>
      /\ NT(<<"C11", e.args.label>>)
      /\ e.args.quiet = "true"
      /\ FinalAbs(e.state) = FinalAbs(ref)

C11_Safety(s, e) ==
    /\ C01_Step(s, e) /\ C03_Step(s, e) /\ C04_Step(s, e) /\ C05_Step(s, e) /\ C12_Step(s, e) /\ C13_Step(s, e)
    /\ ~e.res.panic


-----------------------------------------------------------------------------
(* C18 - at most one valid ExtendedDaemonsetSetting applies to a node.  Evaluated when every setting has been           *)
(* reconciled against the same cluster state ("SettingsDone"); that only a valid setting influences pods is C10_Step.   *)


C18_Step(s, e) ==
    (e.ev = "SettingsDone") =>
      LET t == e.state  X == SeqToSet(t.settings)
          Overlap(x, y) == x # y /\ x.ns = y.ns /\ \E n \in NodeNames(t) : SetMatches(t, x, n) /\ SetMatches(t, y, n)
          Usable(x) == x.sel # ""
      IN /\ NT(<<"C18", Cardinality(X), Cardinality({ x \in X : x.status = "valid" })>>)
         \* at most one valid setting per node
         /\ \A n \in NodeNames(t) : Cardinality({ x \in X : x.status = "valid" /\ SetMatches(t, x, n) }) <= 1
         \* the overlapping others report a conflict
         /\ \A x \in X : (\E y \in X : Overlap(x, y) /\ y.status = "valid") => (x.status = "error" /\ (x.err = "conflict" \/ x.ref = ""))
         \* no reference / unusable selector => error
         /\ \A x \in X : (x.ref = "" \/ ~Usable(x)) => x.status = "error"
         \* a well-formed setting overlapping no other is valid
         /\ \A x \in X : (x.ref # "" /\ Usable(x) /\ ~\E y \in X : Overlap(x, y)) =>
               \/ x.status = "valid"
               \/ Masked("F-setting-poison", "C18", \E y \in X : y # x /\ y.ns = x.ns /\ ~Usable(y))
         \* every setting has a verdict
         /\ \A x \in X : x.status \in {"valid", "error"}

=============================================================================
