----------------------------- MODULE Judge_Labels -----------------------------
(* Judgement module for C20: every (input, output) pair of the real BuildInfoLabels / metric family generators is
   evaluated against the reference below (Labels: the i-th value is the value of the label whose sanitised key is the
   i-th key; gauges: the value of every status family is the status field). *)
EXTENDS Integers, Sequences, SequencesExt, FiniteSets, TLC, Json

CONSTANTS ResFile

Results == ndJsonDeserialize(ResFile)

RECURSIVE JoinS(_)
JoinS(q) == IF q = <<>> THEN "" ELSE Head(q) \o JoinS(Tail(q))

\* sanitizeLabelName: every character outside [a-zA-Z0-9_] becomes "_"
San(c) == IF c \in {"a", "b", "A", "1", "_"} THEN c ELSE "_"
SanKey(k) == JoinS([i \in DOMAIN k |-> San(k[i])])
ValOf(k)  == "val(" \o JoinS(k) \o ")"

LabelsOK(r) ==
    LET ks == r.out.keys  vs == r.out.values  L == ToSet(r.in.labels) IN
      /\ ~r.out.panic
      /\ Len(ks) = Cardinality(L) /\ Len(vs) = Cardinality(L)
      \* the pairs are exactly the (sanitised key, value of that label) pairs, each once
      /\ { <<ks[i], vs[i]>> : i \in DOMAIN ks } = { <<SanKey(k), ValOf(k)>> : k \in L }

MetricsOK(r) ==
    LET v == r.out.values  s == r.in.status  fl == r.in.flags  B(b) == IF b THEN 1 ELSE 0 IN
      /\ ~r.out.panic
      /\ IF r.in.kind = "eds"
         THEN /\ v.eds_status_desired = s.desired /\ v.eds_status_current = s.current /\ v.eds_status_ready = s.ready
              /\ v.eds_status_available = s.available /\ v.eds_status_uptodate = s.upToDate
              /\ v.eds_status_ignored_unresponsive_nodes = s.ignored
              /\ v.eds_created = 1700000000
              /\ v.eds_status_canary_activated = B(fl.canary)
              /\ v.eds_status_canary_paused = B(fl.canary /\ r.in.cpaused = "true")
              /\ v.eds_status_canary_node_number = (IF fl.canary THEN s.canaryNodes ELSE 0)
              /\ v.eds_status_rolling_update_paused = B(fl.ruPaused /\ ~fl.frozen)
              /\ v.eds_status_rollout_frozen = B(fl.frozen)
         ELSE /\ v.ers_status_desired = s.desired /\ v.ers_status_current = s.current /\ v.ers_status_ready = s.ready
              /\ v.ers_status_available = s.available /\ v.ers_status_ignored_unresponsive_nodes = s.ignored
              /\ v.ers_status_canary_failed = B(fl.failed \/ r.in.cpaused = "true")
              /\ v.ers_created = 1700000000
      \* the object's own label extendeddaemonset.datadoghq.com/name=foo appears under its sanitised key with its value
      /\ \E i \in DOMAIN r.out.labelKeys : r.out.labelKeys[i] = "extendeddaemonset_datadoghq_com_name" /\ r.out.labelValues[i] = "foo"
      /\ \E i \in DOMAIN r.out.labelKeys : r.out.labelKeys[i] = "team" /\ r.out.labelValues[i] = "x"

OK(r) == IF r.in.fn = "labels" THEN LabelsOK(r) ELSE MetricsOK(r)

Bad == { i \in DOMAIN Results : ~OK(Results[i]) }
NonTrivial == { i \in DOMAIN Results : Results[i].in.fn = "metrics" \/ \E k \in ToSet(Results[i].in.labels) : SanKey(k) # JoinS(k) }

ASSUME PrintT(<<"JUDGED", Len(Results), Cardinality(NonTrivial), Cardinality(Bad)>>)
ASSUME \A i \in Bad : PrintT(<<"BAD", i>>)
=============================================================================
