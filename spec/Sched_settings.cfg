SPECIFICATION SSSpec
CONSTANTS
  SetSeq <- MC_SetSeq
  SNodeSeq <- MC_SNodeSeq3
  GroupSet = {"g1", "g2"}
  Both <- MC_Both
  SOpBudget = 8
  ClockMax = 3
  KnownFindings = {}
  Notes = FALSE
  Depth = 60
CONSTRAINT SchedPrint
CHECK_DEADLOCK FALSE
