SPECIFICATION MSpec
CONSTANTS
  NodeSeq <- MC_NodeSeq3
  TmplSeq <- MC_TmplSeq
  InitFits <- MC_InitFits3
  StratA <- MC_StratCanary
  StratB <- MC_StratCanary
  EnvBudget = 2
  EditBudget = 2
  AnnBudget = 1
  EnvKinds = {"unready", "fail", "restart", "lost", "dup", "node"}
  FaultBudget = 0
  MaxPerNode = 4
  AgeCap = 3
  KnownFindings = {}
  Notes = FALSE
  Depth = 60
CONSTRAINT SchedPrint
CHECK_DEADLOCK FALSE
