SPECIFICATION SpecCanary
CONSTANTS
  NodeSeq <- MC_NodeSeq
  TmplSeq <- MC_TmplSeq
  InitFits <- MC_InitFits
  Strat <- MC_Strat
  EnvBudget = 1
  EditBudget = 1
  AnnBudget = 1
  EnvKinds = {"unready", "fail", "restart", "dup", "node"}
  FaultBudget = 0
  MaxPerNode = 3
  AgeCap = 2
  KnownFindings = {"F-stale-nodes"}
  Notes = FALSE
VIEW view
INVARIANT TypeOK I_C13m
PROPERTY M_C01 M_C03 M_C04 M_C05 M_C07 M_C08 M_C13 M_C14 M_C15
CHECK_DEADLOCK FALSE
