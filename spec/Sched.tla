------------------------------- MODULE Sched -------------------------------
(* Schedule generation (binding B2): behaviours of the system model, produced by TLC's simulation mode, are written
   as sequences of labels of the shared action vocabulary; the harness replays each into the REAL reconcilers and the
   resulting real trace is judged by Trace.tla (formulas + conformance).  The model decides where to look, the code
   decides what happens. *)
EXTENDS MC_canary

VARIABLE sched
svars == <<vars, sched>>

SInit == Init /\ sched = <<>>
SNextRollout == Next /\ sched' = Append(sched, ev'.label)
SNextCanary  == NextCanary /\ sched' = Append(sched, ev'.label)
CONSTANT Depth
\* printed once per simulated behaviour, when it reaches the requested depth
SchedPrint == IF Len(sched) = Depth THEN PrintT(<<"SCHED", sched>>) ELSE TRUE
SSpecRollout == SInit /\ [][SNextRollout]_svars
SSpecCanary  == SInit /\ [][SNextCanary]_svars
=============================================================================
