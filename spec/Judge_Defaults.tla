---------------------------- MODULE Judge_Defaults ----------------------------
(***************************************************************************)
(* Judgement module for C16 and reference transcription of                 *)
(* api/v1alpha1/extendeddaemonset_default.go / _validate.go over the       *)
(* boundary lattice of Gen_Defaults.tla: defaulting is a fixed point,      *)
(* fills what the reconcilers dereference, preserves what the user set,    *)
(* yields an object recognised as defaulted; validation rejects exactly    *)
(* the documented combinations; nothing crashes.                           *)
(***************************************************************************)
EXTENDS Integers, Sequences, FiniteSets, TLC, Json

CONSTANTS ResFile

Results == ndJsonDeserialize(ResFile)

Minutes(d) == CASE d = "0s" -> 0 [] d = "-1s" -> -1 [] d = "1m" -> 1 [] d = "2m" -> 2 [] d = "5m" -> 5 [] d = "10m" -> 10 [] OTHER -> 0
Num(s, dflt) == CASE s = "absent" -> dflt [] s = "0" -> 0 [] s = "1" -> 1 [] s = "2" -> 2 [] s = "5" -> 5 [] OTHER -> dflt

\* DefaultExtendedDaemonSetSpecStrategyCanary, the part validation reads
Mode(x, ctl)      == IF x.cMode = "" THEN ctl ELSE x.cMode
DurSet(x, ctl)    == x.cDuration # "absent" \/ Mode(x, ctl) = "auto"
DurVal(x)         == IF x.cDuration # "absent" THEN Minutes(x.cDuration) ELSE 10
NoRestSet(x, ctl) == x.cNoRestarts # "absent" \/ Mode(x, ctl) = "auto"
APEnabled(x)      == IF x.autoPause = "present" /\ x.apEnabled # "absent" THEN x.apEnabled = "true" ELSE TRUE
AFEnabled(x)      == IF x.autoFail = "present" /\ x.afEnabled # "absent" THEN x.afEnabled = "true" ELSE TRUE
APMax(x)          == IF x.autoPause = "present" THEN Num(x.apMaxRestarts, 2) ELSE 2
AFMax(x)          == IF x.autoFail = "present" THEN Num(x.afMaxRestarts, 5) ELSE 5
TimeoutSet(x)     == x.autoFail = "present" /\ x.afTimeout # "absent"

\* the rejections the statement documents (several may apply; the code reports the first it meets)
Rejections(x, ctl) ==
    IF x.canary # "present" THEN {}
    ELSE (IF AFEnabled(x) /\ APEnabled(x) /\ AFMax(x) < APMax(x) THEN {"restarts"} ELSE {}) \cup
         (IF AFEnabled(x) /\ TimeoutSet(x) /\ DurSet(x, ctl) /\ Minutes(x.afTimeout) <= DurVal(x) THEN {"timeout"} ELSE {}) \cup
         (IF Mode(x, ctl) = "manual" /\ DurSet(x, ctl) THEN {"manualDuration"} ELSE {}) \cup
         (IF Mode(x, ctl) = "manual" /\ NoRestSet(x, ctl) THEN {"manualNoRestarts"} ELSE {})

OK(r) ==
    LET x == r.in.spec  ctl == r.in.mode  o == r.out IN
      /\ ~o.panicDefault /\ ~o.panicValidate /\ ~o.panicReconcile
      /\ o.idempotent /\ o.preserved /\ o.nameCleared /\ o.derefsSet /\ o.isDefaulted /\ ~o.defaultingLoops
      /\ IF Rejections(x, ctl) = {} THEN o.validate = "ok" ELSE o.validate \in Rejections(x, ctl)
      /\ x.canary = "present" =>
           /\ o.defaulted.cMode = Mode(x, ctl)
           /\ o.defaulted.cDurationSet = DurSet(x, ctl)
           /\ o.defaulted.cNoRestartsSet = NoRestSet(x, ctl)
           /\ o.defaulted.apMaxRestarts = APMax(x)
           /\ o.defaulted.afMaxRestarts = AFMax(x)

Bad == { i \in DOMAIN Results : ~OK(Results[i]) }
\* non-trivial: defaulting had something to fill, or validation had something to reject
NonTrivial == { i \in DOMAIN Results : ~Results[i].out.wasDefaulted \/ Rejections(Results[i].in.spec, Results[i].in.mode) # {} }

ASSUME PrintT(<<"JUDGED", Len(Results), Cardinality(NonTrivial), Cardinality(Bad)>>)
ASSUME \A i \in Bad : PrintT(<<"BAD", i>>)
=============================================================================
