----------------------------- MODULE Gen_Limits -----------------------------
(***************************************************************************)
(* Vector generator for C03 / C09 / C08 / C01 (binding B3): the complete   *)
(* bounded space of rollout states of an active replica set - every        *)
(* multiset assignment of up to MaxN nodes to the seven categories of the  *)
(* property statement, times the budget parameters - written as JSON       *)
(* state vectors (harness/sim/materialize.go).  The harness materialises   *)
(* each vector, runs ONE real ExtendedDaemonSetReplicaSet reconcile of the *)
(* active replica set (Reps times: Go map order is the quantified          *)
(* dimension) and Trace.tla judges the recorded step with C03_Step etc.    *)
(***************************************************************************)
EXTENDS Integers, Sequences, SequencesExt, FiniteSets, TLC, Json

CONSTANTS MaxN, Reps, OutFile, MaxUs, MaxSFs, Variants

\* ("upUnknown": the pod's Ready condition is Unknown - its node stopped reporting -, which is not Ready)
Cats == <<"none", "upAvail", "upUnavail", "oldAvail", "oldUnavail", "oldTerm", "stuck", "upUnknown">>

\* multisets of size n over the 7 categories = non-decreasing sequences of category indices
RECURSIVE NonDec(_, _)
NonDec(n, lo) == IF n = 0 THEN {<<>>} ELSE UNION { { <<c>> \o q : q \in NonDec(n - 1, c) } : c \in lo..Len(Cats) }

Layouts == UNION { NonDec(n, 1) : n \in 1..MaxN }

NodeName(i) == "n" \o ToString(i)

PodFor(cat, i) ==
    LET base == [node |-> NodeName(i), tmpl |-> "A", rs |-> "A", phase |-> "Running", ready |-> TRUE, term |-> FALSE, stuck |-> FALSE,
                 unsched |-> FALSE, readyUnknown |-> FALSE, restarts |-> 0, restartAge |-> -1, waiting |-> "", startAge |-> 3, clabel |-> FALSE, age |-> 3, res |-> ""]
    IN CASE cat = "upAvail"    -> <<[base EXCEPT !.tmpl = "B", !.rs = "B"]>>
         [] cat = "upUnavail"  -> <<[base EXCEPT !.tmpl = "B", !.rs = "B", !.ready = FALSE]>>
         [] cat = "oldAvail"   -> <<base>>
         [] cat = "oldUnavail" -> <<[base EXCEPT !.ready = FALSE]>>
         [] cat = "oldTerm"    -> <<[base EXCEPT !.term = TRUE]>>
         [] cat = "stuck"      -> <<[base EXCEPT !.term = TRUE, !.stuck = TRUE, !.ready = FALSE]>>
         [] cat = "upUnknown"  -> <<[base EXCEPT !.tmpl = "B", !.rs = "B", !.ready = FALSE, !.readyUnknown = TRUE]>>
         [] OTHER              -> <<>>

RECURSIVE Concat(_)
Concat(qs) == IF qs = <<>> THEN <<>> ELSE Head(qs) \o Concat(Tail(qs))

Strategy(mu, sf, var) ==
    [MaxUnavailable |-> mu, MaxSchedFailure |-> sf, MaxParallel |-> var.maxParallel, SlowStartInterval |-> var.interval,
     SlowStartIncrease |-> var.incr, Frequency |-> 1, Canary |-> FALSE]

Vec(lay, mu, sf, var) ==
    [label |-> "limits", affinity |-> FALSE, reps |-> Reps,
     strategy |-> Strategy(mu, sf, var),
     nodes |-> [i \in 1..(Len(lay) + var.unfit) |-> [name |-> NodeName(i), fits |-> (IF i <= Len(lay) THEN "A,B" ELSE "-"), csel |-> TRUE, zone |-> "z1",
                                                    taint |-> FALSE, override |-> "none", group |-> ""]],
     eds |-> [tmpl |-> "B", ruPaused |-> var.paused, frozen |-> var.frozen, cPaused |-> "", cUnpaused |-> "", cValid |-> "", active |-> "B",
              canary |-> "", cNodes |-> <<>>, desired |-> Len(lay), state |-> "Running"],
     rs |-> << [tmpl |-> "A", age |-> 9, status |-> "unknown", counters |-> <<0, 0, 0, 0>>, conds |-> <<>>],
               [tmpl |-> "B", age |-> 6, status |-> "active", counters |-> <<Len(lay), 0, 0, 0>>,
                conds |-> << [type |-> "Active", true |-> var.activeTrue, ltt |-> var.activeAge, lut |-> var.activeAge],
                             [type |-> "LastFullSync", true |-> TRUE, ltt |-> 6, lut |-> 2] >>] >>,
     pods |-> Concat([i \in DOMAIN lay |-> PodFor(Cats[lay[i]], i)]),
     steps |-> << [op |-> "ERSReconcile", t |-> "B"] >>]

V(paused, frozen, activeAge, interval, incr, maxParallel) ==
    [paused |-> paused, frozen |-> frozen, activeTrue |-> ~paused /\ ~frozen, activeAge |-> activeAge, interval |-> interval, incr |-> incr,
     maxParallel |-> maxParallel, unfit |-> 0]
\* the replica set was paused / frozen until now: its Active condition is still False and old
JustResumed(activeAge, incr) == [V(FALSE, FALSE, activeAge, 1, incr, 250) EXCEPT !.activeTrue = FALSE]
\* extra nodes of the cluster that the template does not fit (they are listed but not targeted)
WithUnfit(v, k) == [v EXCEPT !.unfit = k]
VariantsQuick == { V(FALSE, FALSE, 4, 1, "5", 250), V(TRUE, FALSE, 4, 1, "5", 250), V(FALSE, TRUE, 4, 1, "5", 250),
                   V(FALSE, FALSE, 0, 2, "1", 250), V(FALSE, FALSE, 3, 2, "1", 2), V(FALSE, FALSE, 2, 1, "34%", 250),
                   JustResumed(4, "1"), WithUnfit(V(FALSE, FALSE, 4, 1, "34%", 250), 3), WithUnfit(V(FALSE, FALSE, 0, 1, "34%", 250), 3) }
VariantsThorough == VariantsQuick \cup { V(FALSE, FALSE, a, i, c, mp) : a \in {0, 1, 5}, i \in {1, 2}, c \in {"1", "2", "100%"}, mp \in {1, 3} }

\* creation allowance smaller than the number of nodes lacking a pod (slow start just begun / small maxParallelPodCreation), with a
\* deletion budget of two or three: nodes that cannot get their pod in this sync are still nodes without an available pod
Limited == { V(FALSE, FALSE, 0, 2, "1", 250), V(FALSE, FALSE, 3, 2, "1", 2), V(FALSE, FALSE, 1, 1, "1", 1) }
V0 == V(FALSE, FALSE, 4, 1, "5", 250)
Space == { Vec(lay, mu, sf, V0) : lay \in Layouts, mu \in MaxUs, sf \in MaxSFs } \cup
         { Vec(lay, "1", "0", var) : lay \in Layouts, var \in Variants } \cup
         { Vec(lay, mu, "0", WithUnfit(V0, 3)) : lay \in Layouts, mu \in { m \in MaxUs : m \in {"25%", "50%"} } } \cup
         { Vec(lay, mu, "0", var) : lay \in Layouts, var \in Limited, mu \in { m \in MaxUs : m \in {"2", "3"} } }

ASSUME PrintT(<<"VECTORS", Cardinality(Space)>>)
ASSUME ndJsonSerialize(OutFile, SetToSeq(Space))
=============================================================================
