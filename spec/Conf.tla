------------------------------- MODULE Conf -------------------------------
(***************************************************************************)
(* Conformance: is a RECORDED reconcile of the real code one of the        *)
(* outcomes the decision procedures of Ctrl.tla (the bodies of the         *)
(* reconcile actions of Cluster.tla) allow from the state it read?         *)
(* Measured, never convicting (DESIGN 2.3): Trace.tla prints a DRIFT line  *)
(* per non-conformant step; the evidence reports conformant / total.       *)
(***************************************************************************)
EXTENDS Ctrl, Props

GateOpen(c, f) == ~(c.present /\ c.lut < f)

\* counters of the replica set after the sync
CountersAre(r2, x) ==
    /\ r2.desired = x.desired /\ r2.current = x.current /\ r2.ready = x.ready /\ r2.available = x.available

Conf_ERS(s, e) ==
    LET r == RSOf(s, e.rs)  d == EDSOf(s, r.owner)  role == Role(d, r)
        F == d.strat.frequency
        createdNodes == { w.node : w \in PodCreates(e) }
        deletedIds   == DeletedIds(e)
        statusOK     == HasRS(e.state, e.rs) /\ AllOK(StatusWrites(e, "ERS")) /\ FullSync(e)
        r2           == RSOf(e.state, e.rs)
    IN IF ~GateOpen(r.conds.LastFullSync, F)
       THEN Writes(e) = {}
       ELSE \E FD \in SUBSET FailedCandidates(s, d, r, role) :
            \E kept \in KeptChoices(s, d, r, role, FD) :
              LET clean == CleanUp(s, d, r, role, FD, kept) IN
              CASE role = "active" ->
                     LET a == Act(s, d, r, kept)
                         delOpen == ~d.ruPaused /\ ~d.frozen /\ GateOpen(r.conds.PodDeletion, F)
                         creOpen == ~d.frozen /\ GateOpen(r.conds.PodCreation, F)
                     IN /\ \E D \in (IF delOpen THEN DeleteChoices(a) ELSE {{}}) : deletedIds = clean \cup { kept[n].id : n \in D }
                        /\ \E C \in (IF creOpen THEN CreateChoices(a) ELSE {{}}) : createdNodes = C
                        /\ statusOK => (CountersAre(r2, a) /\ r2.status = "active" /\ r2.ignored = a.ignored)
                [] role = "canary" ->
                     LET c == Can(s, d, r, kept)
                         delOpen == GateOpen(r.conds.PodDeletion, F)
                         creOpen == GateOpen(r.conds.PodCreation, F)
                     IN /\ deletedIds = clean \cup (IF delOpen THEN { kept[n].id : n \in c.toDelete } ELSE {})
                        /\ \E pz \in c.pausedSet :
                             /\ createdNodes = (IF creOpen /\ ~pz /\ ~c.failed THEN c.toCreate ELSE {})
                             /\ statusOK => (r2.conds.CanaryPaused.true = pz)
                        /\ statusOK => /\ CountersAre(r2, c)
                                       /\ r2.conds.CanaryFailed.true = c.failed
                                       /\ r2.status = (IF c.failed THEN "canary-failed" ELSE "canary")
                [] OTHER ->
                     LET u == Unk(s, d, r, kept) IN
                        /\ deletedIds = {} /\ createdNodes = {}
                        /\ statusOK => (CountersAre(r2, u) /\ r2.status = "unknown")

\* the ExtendedDaemonSet reconcile
Conf_EDS(s, e) ==
    LET d  == EDSOf(s, e.key)
        U  == UpToDateListed(s, d)
        W  == Writes(e)
    IN IF ~d.defaulted
       THEN \A w \in W : w.kind = "EDS" /\ w.verb = "update"
       ELSE IF U = {}
       THEN \A w \in W : w.kind = "ERS" /\ w.verb = "create" /\ w.hash = d.tmpl
       ELSE \E u \in U : \E ended \in { CanaryEnded(d, u), CanaryEndedMaybe(d, u) } :
              LET cur    == SelectCurrent(s, d, u, ended)
                  gc     == { x.id : x \in { y \in ListedRS(s, d) : y.id # cur /\ y.id # u.id /\ ~y.deleting /\ ShouldDeleteRS(y) } }
                  failed == d.strat.canary /\ EDSFailed(u)
                  cact   == d.strat.canary /\ ~failed /\ cur # u.id
                  d2     == EDSOf(e.state, e.key)
              IN /\ { w.id : w \in { x \in W : x.kind = "ERS" /\ x.verb = "delete" } } = gc
                 /\ \A w \in W : (w.kind = "ERS" => w.verb = "delete") /\ w.kind \in {"ERS", "EDS"}
                 /\ (HasEDS(e.state, e.key) /\ AllOK(W) /\ ~e.res.err) =>
                      /\ d2.active = cur
                      /\ d.strat.canary => (d2.hasCanary = cact /\ (cact => d2.canaryRS = u.id))
                      /\ d2.tmpl = (IF failed /\ HasRS(s, cur) THEN RSOf(s, cur).tmpl ELSE d.tmpl)

-----------------------------------------------------------------------------
(* C06 - auto-fail and auto-pause fire exactly on their documented triggers.  Reference: Ctrl!Can, the transcription *)
(* of manageCanaryStatus / manageCanaryPodFailures.  Stated here (not in Props.tla) because it needs Ctrl.           *)

C06_Step(s, e) ==
    (IsERS(s, e) /\ HasRS(e.state, e.rs) /\ FullSync(e) /\ AllOK(StatusWrites(e, "ERS")) /\ ~e.res.panic) =>
      LET r == RSOf(s, e.rs)  d == EDSOf(s, r.owner)  r2 == RSOf(e.state, e.rs) IN
        (Role(d, r) = "canary" /\ d.defaulted /\ d.strat.canary) =>
          \E kept \in KeptChoices(s, d, r, "canary", {}) :
            LET c == Can(s, d, r, kept)
                evaluable == { n \in CNodes(d) : n \in DOMAIN kept /\ kept[n] # NoPod /\ ~kept[n].term /\ PodUpToDate(s, d, r, kept[n]) }
            IN /\ NT(<<"C06", Cardinality(evaluable), r.conds.CanaryFailed.true, r2.conds.CanaryFailed.true, r.conds.CanaryPaused.true, r2.conds.CanaryPaused.true,
                       d.strat.apEnabled, d.strat.afEnabled, d.cPaused, d.cUnpaused>>)
               \* failed: exactly when (already failed) or (auto-fail enabled and one of the three triggers)
               /\ r2.conds.CanaryFailed.true = c.failed
               \* once true it stays true while the replica set is the canary
               /\ r.conds.CanaryFailed.true => r2.conds.CanaryFailed.true
               \* paused: one of the outcomes of the documented rule (unpause overrides pausing, never failing)
               /\ (evaluable # {}) => r2.conds.CanaryPaused.true \in c.pausedSet
               \* disabled features never fire
               /\ (~d.strat.afEnabled /\ ~r.conds.CanaryFailed.true) => ~r2.conds.CanaryFailed.true
               /\ (~d.strat.apEnabled /\ ~r.conds.CanaryPaused.true /\ ~d.cPaused) => ~r2.conds.CanaryPaused.true
               \* while paused or failed no further canary pod is created
               /\ (r2.conds.CanaryFailed.true \/ r2.conds.CanaryPaused.true) => PodCreates(e) = {}


-----------------------------------------------------------------------------
(* The ExtendedDaemonsetSetting reconcile (controllers/extendeddaemonsetsetting): transcription of Reconcile +          *)
(* searchPossibleConflict.  Settings are sorted newest first, ties by the larger name; a setting is in conflict when a  *)
(* setting sorted before it selects one of the nodes it selects.  A setting without reference stops before the search   *)
(* (but still occupies nodes for the others); an unusable selector fails only its own reconcile.                        *)

\* s.settings is sorted by namespace/name (projection), so "the larger name" is the larger index
SetIdx(s, x) == CHOOSE i \in DOMAIN s.settings : s.settings[i] = x
SetBefore(s, y, x) == y.born > x.born \/ (y.born = x.born /\ SetIdx(s, y) > SetIdx(s, x))

SettingVerdict(s, x) ==
    IF x.ref = "" THEN <<"error", "missing">>
    ELSE IF x.sel = "" THEN <<"error", "selector">>     \* its own unusable selector, whatever the nodes (after the fix: checked before the search)
    ELSE IF \E n \in NodeNames(s) : \E y \in SeqToSet(s.settings) :
              y # x /\ y.ns = x.ns /\ SetMatches(s, y, n) /\ SetMatches(s, x, n) /\ SetBefore(s, y, x)
         THEN <<"error", "conflict">>
    ELSE <<"valid", "">>

IsSetting(s, e) == e.ev = "SettingReconcile" /\ \E x \in SeqToSet(s.settings) : x.ns \o "/" \o x.name = e.key

Conf_Setting(s, e) ==
    LET x == CHOOSE y \in SeqToSet(s.settings) : y.ns \o "/" \o y.name = e.key
        v == SettingVerdict(s, x)
        after == { y \in SeqToSet(e.state.settings) : y.ns = x.ns /\ y.name = x.name }
    IN \A y \in after : y.status = v[1] /\ y.err = v[2]

Conf_Step(s, e) ==
    CASE IsSetting(s, e) /\ ~e.res.panic /\ ~e.res.err /\ (\A w \in Writes(e) : w.inj = "") -> Conf_Setting(s, e)
      [] IsERS(s, e) /\ EDSOf(s, RSOf(s, e.rs).owner).defaulted /\ GoodStrat(EDSOf(s, RSOf(s, e.rs).owner)) /\ ~e.res.panic
              /\ (\A w \in Writes(e) : w.inj = "") -> Conf_ERS(s, e)
      [] IsEDS(s, e) /\ ~e.res.panic /\ (\A w \in Writes(e) : w.inj = "") /\ e.res.errKind \in {"", "nodes"} -> Conf_EDS(s, e)
      [] OTHER -> TRUE

\* is the step one the conformance relation speaks about?
Conf_Applies(s, e) ==
    \/ (IsSetting(s, e) /\ ~e.res.panic /\ ~e.res.err /\ (\A w \in Writes(e) : w.inj = ""))
    \/ (IsERS(s, e) /\ EDSOf(s, RSOf(s, e.rs).owner).defaulted /\ GoodStrat(EDSOf(s, RSOf(s, e.rs).owner)) /\ ~e.res.panic /\ (\A w \in Writes(e) : w.inj = ""))
    \/ (IsEDS(s, e) /\ ~e.res.panic /\ (\A w \in Writes(e) : w.inj = "") /\ e.res.errKind \in {"", "nodes"})
=============================================================================
