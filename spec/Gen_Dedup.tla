------------------------------ MODULE Gen_Dedup ------------------------------
(***************************************************************************)
(* Vector generator for C01 (binding B3): the de-duplication rule.  One    *)
(* node carrying two or three pods of the ExtendedDaemonSet - every        *)
(* combination of scheduled / not yet bound (node-affinity placement),     *)
(* creation order with ties, owning replica set (active / superseded),     *)
(* phase (Running, Failed, Unknown) and terminating - in every position of *)
(* the list the API server returns (pods are named by their position), a   *)
(* second node without a pod.  The harness materialises each vector in     *)
(* node-affinity mode, runs ONE real sync of the active replica set (Reps  *)
(* times for Go's map order); Trace.tla judges the step with C01_Step:     *)
(* all but one deleted, the kept one scheduled if any, the oldest of those,*)
(* Unknown-phase pods untouched, no second pod created for the node.       *)
(***************************************************************************)
EXTENDS Integers, Sequences, SequencesExt, FiniteSets, TLC, Json

CONSTANTS OutFile, Full, Reps

PodAttrs2 == { [unsched |-> u, age |-> a, rs |-> r, phase |-> ph, term |-> t] :
                 u \in BOOLEAN, a \in {1, 2, 3}, r \in {"A", "B"}, ph \in {"Running", "Failed", "Unknown"}, t \in BOOLEAN }
\* three pods: the reduced attribute set (quick) or with the owning replica set (thorough)
PodAttrs3 == { [unsched |-> u, age |-> a, rs |-> r, phase |-> "Running", term |-> FALSE] :
                 u \in BOOLEAN, a \in {1, 2, 3}, r \in (IF Full THEN {"A", "B"} ELSE {"B"}) }

Pops == [1..2 -> { p \in PodAttrs2 : Full \/ (p.age # 3 /\ (p.phase = "Running" \/ ~p.term)) }] \cup [1..3 -> PodAttrs3]

PodOf(x) == [node |-> "n1", tmpl |-> x.rs, rs |-> x.rs, phase |-> x.phase, ready |-> (x.phase = "Running" /\ ~x.unsched), term |-> x.term, stuck |-> FALSE,
             unsched |-> x.unsched, restarts |-> 0, restartAge |-> -1, waiting |-> "", startAge |-> x.age, clabel |-> FALSE, age |-> x.age, res |-> ""]

Strategy == [MaxUnavailable |-> "1", MaxSchedFailure |-> "0", MaxParallel |-> 250, SlowStartInterval |-> 1, SlowStartIncrease |-> "5", Frequency |-> 1, Canary |-> FALSE]

Vec(pop) ==
    [label |-> "dedup", affinity |-> TRUE, reps |-> Reps, strategy |-> Strategy,
     nodes |-> << [name |-> "n1", fits |-> "A,B", csel |-> TRUE, zone |-> "z1", taint |-> FALSE, override |-> "none", group |-> ""],
                  [name |-> "n2", fits |-> "A,B", csel |-> TRUE, zone |-> "z1", taint |-> FALSE, override |-> "none", group |-> ""] >>,
     eds |-> [tmpl |-> "B", ruPaused |-> FALSE, frozen |-> FALSE, cPaused |-> "", cUnpaused |-> "", cValid |-> "", active |-> "B", canary |-> "",
              cNodes |-> <<>>, desired |-> 2, state |-> "Running"],
     rs |-> << [tmpl |-> "A", age |-> 9, status |-> "unknown", counters |-> <<0, 0, 0, 0>>, conds |-> <<>>],
               [tmpl |-> "B", age |-> 6, status |-> "active", counters |-> <<2, 0, 0, 0>>,
                conds |-> << [type |-> "Active", true |-> TRUE, ltt |-> 4, lut |-> 4], [type |-> "LastFullSync", true |-> TRUE, ltt |-> 6, lut |-> 2] >>] >>,
     pods |-> [i \in DOMAIN pop |-> PodOf(pop[i])],
     steps |-> << [op |-> "ERSReconcile", t |-> "B"] >>]

Space == { Vec(pop) : pop \in Pops }

ASSUME PrintT(<<"VECTORS", Cardinality(Space)>>)
ASSUME ndJsonSerialize(OutFile, SetToSeq(Space))
=============================================================================
