---------------------------- MODULE Judge_Fitness ----------------------------
(* Reference for node eligibility (C01): node selector, required node affinity, NoSchedule / NoExecute taints versus
   tolerations - and judgement of the real CheckNodeFitness on every vector of Gen_Fitness. *)
EXTENDS Integers, Sequences, FiniteSets, TLC, Json

CONSTANTS ResFile
Results == ndJsonDeserialize(ResFile)

ToSet(q) == { q[i] : i \in DOMAIN q }
Label(n, k) == IF k = "k1" THEN n.labels.k1 ELSE IF k = "k2" THEN n.labels.k2 ELSE ""

SelOK(n, s) == (s.k1 # "" => n.labels.k1 = s.k1) /\ (s.k2 # "" => n.labels.k2 = s.k2)

ExprOK(n, x) ==
    CASE x.op = "In"           -> Label(n, x.key) # "" /\ Label(n, x.key) \in ToSet(x.values)
      [] x.op = "NotIn"        -> Label(n, x.key) \notin ToSet(x.values) \/ Label(n, x.key) = ""
      [] x.op = "Exists"       -> Label(n, x.key) # ""
      [] x.op = "DoesNotExist" -> Label(n, x.key) = ""
      [] OTHER -> FALSE
FieldOK(n, x) ==
    CASE x.op = "In"    -> n.name \in ToSet(x.values)
      [] x.op = "NotIn" -> n.name \notin ToSet(x.values)
      [] OTHER -> FALSE
\* a term with neither expressions nor fields matches nothing; terms are OR-ed, requirements AND-ed
TermOK(n, t) == (Len(t.exprs) + Len(t.fields) > 0) /\ (\A x \in ToSet(t.exprs) : ExprOK(n, x)) /\ (\A x \in ToSet(t.fields) : FieldOK(n, x))
AffinityOK(n, a) == a.kind \in {"none", "preferredOnly"} \/ \E t \in ToSet(a.terms) : TermOK(n, t)

Tolerates(tol, taint) ==
    /\ (tol.effect = "" \/ tol.effect = taint.effect)
    /\ (tol.key = "" => tol.op = "Exists")
    /\ (tol.key # "" => tol.key = taint.key)
    /\ (tol.op = "Exists" \/ (tol.op = "Equal" /\ tol.value = taint.value))
TaintsOK(n, tols) == \A taint \in ToSet(n.taints) : taint.effect \in {"NoSchedule", "NoExecute"} => \E tol \in ToSet(tols) : Tolerates(tol, taint)

Fit(v) == SelOK(v.node, v.sel) /\ AffinityOK(v.node, v.affinity) /\ TaintsOK(v.node, v.tolerations)

OK(r) == ~r.out.panic /\ r.out.fit = Fit(r.in)
Bad == { i \in DOMAIN Results : ~OK(Results[i]) }
\* non-trivial: the verdict is decided by an affinity term or by a taint (not by the trivial all-empty pod)
NonTrivial == { i \in DOMAIN Results : Results[i].in.affinity.kind = "required" \/ Len(Results[i].in.node.taints) > 0 }

ASSUME PrintT(<<"JUDGED", Len(Results), Cardinality(NonTrivial), Cardinality(Bad)>>)
ASSUME \A i \in Bad : PrintT(<<"BAD", i>>)
=============================================================================
