------------------------------- MODULE Trace -------------------------------
(***************************************************************************)
(* Trace specification: executions of the REAL reconcilers, recorded by    *)
(* the harness as ndjson (one event per line, each with the full projected *)
(* abstract state after the step), are replayed here.  The state is bound  *)
(* from the log, so validation is linear in the trace length; TLC          *)
(* evaluates the step formulas of Props.tla on every recorded step and     *)
(* reports the violated property by name.  A "reset" event starts a new    *)
(* trace, so thousands of traces are validated in one run.                 *)
(*                                                                         *)
(* hist carries the history the spacing clause of C09 and the monotonic    *)
(* clause of C06 need.                                                     *)
(***************************************************************************)
EXTENDS Conf, Json, Sequences

CONSTANT TraceFile

Trace == ndJsonDeserialize(TraceFile)

VARIABLES l,      \* index of the last consumed event
          hist    \* [rsid |-> virtual instant of the last sync of that replica set that issued pod writes]

vars == <<l, hist>>

NoHist == [lastPodSync |-> <<>>, ref |-> [none |-> TRUE]]

Ev(i)    == Trace[i]
StateAt(i) == Trace[i].state

PodWriteSync(e) == e.ev = "ERSReconcile" /\ (PodCreates(e) \cup PodDeletes(e)) # {} /\ AllOK(StatusWrites(e, "ERS")) /\ FullSync(e)

UpdHist(h, e) ==
    IF e.ev = "reset" THEN NoHist
    ELSE IF e.ev = "reference" THEN [h EXCEPT !.ref = e.state]
    ELSE IF PodWriteSync(e)
         THEN [h EXCEPT !.lastPodSync = [x \in (DOMAIN h.lastPodSync) \cup {e.rs} |-> IF x = e.rs THEN e.state.now ELSE h.lastPodSync[x]]]
    ELSE IF e.ev = "ERSReconcile" /\ (PodCreates(e) \cup PodDeletes(e)) # {}
         THEN [h EXCEPT !.lastPodSync = [x \in (DOMAIN h.lastPodSync) \ {e.rs} |-> h.lastPodSync[x]]]   \* status write failed: clause void
    ELSE h

Init == l = 1 /\ hist = NoHist /\ TLCSet(11, 0) /\ TLCSet(12, 0)
Next == /\ l < Len(Trace)
        /\ l' = l + 1
        /\ hist' = UpdHist(hist, Trace[l + 1])
Spec == Init /\ [][Next]_vars

\* (s, e) of the step l -> l+1
\* "reference" (final state of the failure-free run) and "resume" (state a faulted run is cut in at) carry states, no step
Step(F(_, _)) == LET e == Trace[l'] IN e.ev \in {"reset", "reference", "resume"} \/ F(Trace[l].state, e)

P_C01 == [][Step(C01_Step)]_vars
P_C02 == [][Step(C02_Step)]_vars
P_C03 == [][Step(C03_Step)]_vars
P_C04 == [][Step(C04_Step)]_vars
P_C05 == [][Step(C05_Step)]_vars
P_C06 == [][Step(C06_Step)]_vars
P_C07 == [][Step(C07_Step)]_vars
P_C08 == [][Step(C08_Step)]_vars
P_C09 == [][Step(C09_Step)]_vars
P_C10 == [][Step(C10_Step)]_vars
P_C12 == [][Step(C12_Step)]_vars
P_C13 == [][Step(C13_Step)]_vars
P_C14 == [][Step(C14_Step)]_vars
P_C15 == [][Step(C15_Step)]_vars
P_C16 == [][Step(C16_Step)]_vars
P_C17 == [][Step(C17_Step)]_vars
P_C11 == [][Step(C11_Safety)]_vars
P_C11f == [][LET e == Trace[l'] IN e.ev = "faultEnd" => C11_Final(hist.ref, e)]_vars
P_C18 == [][Step(C18_Step)]_vars
\* C17, interleaving safety: state invariants on the states sampled while the reconcilers run concurrently
I_C17 == Trace[l].ev = "sample" => C13_Inv(Trace[l].state)
P_C17c == [][LET e == Trace[l'] IN e.ev = "concurrentEnd" => ~e.res.panic]_vars
P_C19 == [][Step(C19_Step)]_vars

\* C09, spacing: two syncs of one replica set that issue pod writes (status writes succeeding) are at least
\* reconcileFrequency apart.
C09_Spacing(s, e) ==
    (IsERS(s, e) /\ (PodCreates(e) \cup PodDeletes(e)) # {} /\ e.rs \in DOMAIN hist.lastPodSync) =>
       LET d == EDSOf(s, RSOf(s, e.rs).owner) IN
         d.strat.frequency >= 0 => (NT(<<"C09", "spacing", e.state.now - hist.lastPodSync[e.rs]>>) /\ e.state.now - hist.lastPodSync[e.rs] >= d.strat.frequency)
P_C09s == [][Step(C09_Spacing)]_vars

\* Frame: the recorded state after a reconcile is the recorded state before it changed by the recorded writes and by nothing else
\* (pods no write names are unchanged, deleted pods are gone or terminating, created pods exist, nodes are untouched, replica sets
\* come and go only through the ExtendedDaemonSet reconcile).  This is a consistency condition of the HARNESS (projection and write
\* log agree), not a property of the code: a violation is reported as a machinery error.
PodCore(p) == <<p.id, p.ns, p.node, p.hash, p.phase, p.ready, p.term, p.clabel, p.owner, p.ownerRS, p.restarts>>
Frame(s, e) ==
    (e.ev \in {"ERSReconcile", "EDSReconcile", "SettingReconcile", "PodTemplateReconcile"}) =>
      LET touched == { w.id : w \in { x \in Writes(e) : x.kind = "Pod" } } IN
        /\ \A p \in Pods(s) : p.id \notin touched => \E q \in Pods(e.state) : PodCore(q) = PodCore(p)
        /\ \A q \in Pods(e.state) : q.id \notin touched => \E p \in Pods(s) : PodCore(q) = PodCore(p)
        /\ \A w \in Writes(e) : (w.kind = "Pod" /\ w.verb = "delete" /\ w.ok /\ w.inj = "" /\ HasPod(s, w.id)) =>
               (~HasPod(e.state, w.id) \/ PodOf(e.state, w.id).term)
        /\ \A w \in Writes(e) : (w.kind = "Pod" /\ w.verb = "create" /\ w.ok /\ w.inj = "") => HasPod(e.state, w.id)
        /\ e.state.nodes = s.nodes
        /\ (e.ev # "EDSReconcile") => { r.id : r \in RSs(s) } = { r.id : r \in RSs(e.state) }
P_Frame == [][Step(Frame)]_vars

\* conformance of recorded reconciles with the decision procedures of the model (measured, not convicting)
ConfCount(s, e) ==
    IF Conf_Applies(s, e)
    THEN /\ TLCSet(11, TLCGet(11) + 1)
         /\ IF Conf_Step(s, e) THEN TLCSet(12, TLCGet(12) + 1) ELSE PrintT(<<"DRIFT", l', e.ev>>)
    ELSE TRUE
P_Conf == [][Step(ConfCount)]_vars
ConfReport == PrintT(<<"CONF", TLCGet(11), TLCGet(12)>>)

I_C13 == Trace[l].ev \in {"reset", "reference", "resume"} \/ C13_Inv(Trace[l].state)

TraceAccepted == TLCGet("stats").diameter = Len(Trace)
=============================================================================
