SPECIFICATION SSpecCanary
CONSTANTS
  NodeSeq <- MC_NodeSeq3
  TmplSeq <- MC_TmplSeq
  InitFits <- MC_InitFits3
  Strat <- MC_Strat
  EnvBudget = 3
  EditBudget = 2
  AnnBudget = 2
  EnvKinds = {"unready", "fail", "restart", "lost", "dup", "node", "narrow"}
  FaultBudget = 0
  MaxPerNode = 4
  AgeCap = 3
  KnownFindings = {}
  Notes = FALSE
  Depth = 60
CONSTRAINT SchedPrint
CHECK_DEADLOCK FALSE
