---------------------------- MODULE MC_canary ----------------------------
(* Bounded configuration: canary strategy (auto validation), kubectl-eds pause / unpause / validate, restarts of
   canary pods leading to auto-pause and auto-fail, promotion by elapsed time, rollback.  Serves C04 C05 C07 C08 C14 C15. *)
EXTENDS Cluster

IP(v, pct) == [v |-> v, pct |-> pct, set |-> TRUE, bad |-> FALSE]

CanStrat == [maxUnavailable |-> IP(1, FALSE), maxSchedFailure |-> IP(0, FALSE), maxParallel |-> 250, slowStartInterval |-> 1,
             slowStartIncrease |-> IP(5, FALSE), frequency |-> 1, canary |-> TRUE, cReplicas |-> IP(1, FALSE),
             cDuration |-> 2, cNoRestarts |-> 1, cMode |-> "auto", cAntiAffinity |-> FALSE, cSelector |-> FALSE,
             apEnabled |-> TRUE, apMaxRestarts |-> 0, apMaxSlowStart |-> -1, afEnabled |-> TRUE, afMaxRestarts |-> 1,
             afMaxRestartsDur |-> -1, afTimeout |-> -1]

MC_NodeSeq  == <<"n1", "n2">>
MC_NodeSeq3 == <<"n1", "n2", "n3">>
MC_TmplSeq  == <<"A", "B">>
MC_InitFits == <<{"A", "B"}, {"A", "B"}>>
MC_InitFits3 == <<{"A", "B"}, {"A", "B"}, {"A", "B"}>>
MC_Strat    == CanStrat
MC_StratManual == [CanStrat EXCEPT !.cMode = "manual", !.cDuration = -1, !.cNoRestarts = -1]
\* auto-fail at the first restart: the failure / rollback paths are reached with one environment disturbance
MC_StratFailFast == [CanStrat EXCEPT !.afMaxRestarts = 0]
MC_OldDS == "old"
\* the same strategy without the canary block (rolling update only)
MC_StratRollout == [CanStrat EXCEPT !.canary = FALSE]
MC_StratPct == [CanStrat EXCEPT !.cReplicas = IP(50, TRUE)]
=============================================================================
