--------------------------- MODULE PromotionProof ---------------------------
(***************************************************************************)
(* C05, for every state: the decision procedure of the model               *)
(* (Ctrl!SelectCurrent, the transcription of selectCurrentReplicaSet that  *)
(* the recorded reconciles of the real code are compared with in P_Conf)   *)
(* changes the active replica set only when the property's rule            *)
(* (Props!PromotionAllowed) allows it.  Together with conformance of the   *)
(* recorded reconciles this is the design-level half of C05; checked by    *)
(* TLAPS for arbitrary records d (ExtendedDaemonSet), u (the up-to-date    *)
(* replica set) - no bound on ages, durations or restart instants.         *)
(*                                                                         *)
(* Hypotheses: the recorded active replica set exists and is listed        *)
(* (otherwise the matching one is adopted directly - the last clause of    *)
(* the statement), and the spec passed validation (manual validation mode  *)
(* has no duration).                                                       *)
(***************************************************************************)
EXTENDS Integers, TLAPS

\* Props.tla
CanaryPausedIn(d, u) == d.cPaused \/ u.conds.CanaryPaused.true
CanaryFailedIn(u)    == u.conds.CanaryFailed.true
PromotionAllowed(d, u) ==
    \/ ~d.strat.canary
    \/ d.active = -1
    \/ d.cValid = u.id
    \/ /\ d.strat.cMode = "auto"
       /\ d.strat.cDuration >= 0 /\ u.age >= d.strat.cDuration
       /\ (d.strat.cNoRestarts < 0 \/ ~u.conds.PodRestarting.present \/ u.conds.PodRestarting.lut >= d.strat.cNoRestarts)
       /\ ~(CanaryPausedIn(d, u) /\ ~d.cUnpaused)
       /\ ~CanaryFailedIn(u)

\* Ctrl.tla
CanaryEnded(d, u) ==
    /\ d.strat.cDuration >= 0
    /\ u.age >= d.strat.cDuration
    /\ (d.strat.cNoRestarts < 0 \/ ~u.conds.PodRestarting.present \/ u.conds.PodRestarting.lut >= d.strat.cNoRestarts)
EDSPaused(d, u) == u.conds.CanaryPaused.true \/ d.cPaused
EDSFailed(u)    == u.conds.CanaryFailed.true
\* SelectCurrent when the recorded active replica set exists and is listed (activeOK)
SelectCurrent(d, u, activeOK) ==
    IF d.active = u.id THEN u.id
    ELSE IF d.active <= 0 \/ ~activeOK THEN u.id
    ELSE IF ~d.strat.canary THEN u.id
    ELSE IF d.cValid = u.id \/ (~EDSPaused(d, u) /\ ~EDSFailed(u) /\ CanaryEnded(d, u)) THEN u.id
    ELSE d.active

THEOREM PromotionRule ==
    ASSUME NEW d, NEW u,
           d.active \in Int, u.id \in Int, d.active > 0, d.active # u.id,
           d.strat.cMode \in {"auto", "manual"},
           d.strat.cMode = "manual" => d.strat.cDuration < 0,          \* validation
           d.strat.cDuration \in Int,
           SelectCurrent(d, u, TRUE) = u.id
    PROVE  PromotionAllowed(d, u)
BY DEF SelectCurrent, PromotionAllowed, CanaryEnded, EDSPaused, EDSFailed, CanaryPausedIn, CanaryFailedIn

\* ... and a failed canary, or one paused without an unpause, is never promoted by elapsed time
THEOREM NeverByTimeWhenFailedOrPaused ==
    ASSUME NEW d, NEW u,
           d.active \in Int, u.id \in Int, d.active > 0, d.active # u.id, d.strat.canary, d.cValid # u.id,
           EDSFailed(u) \/ EDSPaused(d, u)
    PROVE  SelectCurrent(d, u, TRUE) = d.active
BY DEF SelectCurrent, EDSPaused, EDSFailed
=============================================================================
