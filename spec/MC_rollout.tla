---------------------------- MODULE MC_rollout ----------------------------
(* Bounded configuration: one ExtendedDaemonSet without canary strategy; template edits, pause/freeze toggles,
   pod failures / duplicates / node churn; atomic reconciles.  Serves C01 C02 C03 C08 C09 C13 C14. *)
EXTENDS Cluster

IP(v, pct) == [v |-> v, pct |-> pct, set |-> TRUE, bad |-> FALSE]

BaseStrat == [maxUnavailable |-> IP(1, FALSE), maxSchedFailure |-> IP(0, FALSE), maxParallel |-> 250, slowStartInterval |-> 1,
              slowStartIncrease |-> IP(5, FALSE), frequency |-> 1, canary |-> FALSE, cReplicas |-> IP(1, FALSE),
              cDuration |-> -1, cNoRestarts |-> -1, cMode |-> "", cAntiAffinity |-> FALSE, cSelector |-> FALSE,
              apEnabled |-> FALSE, apMaxRestarts |-> -1, apMaxSlowStart |-> -1, afEnabled |-> FALSE, afMaxRestarts |-> -1,
              afMaxRestartsDur |-> -1, afTimeout |-> -1]

MC_NodeSeq  == <<"n1", "n2", "n3">>
MC_NodeSeq2  == <<"n1", "n2">>
MC_InitFits2 == <<{"A", "B"}, {"A", "B"}>>
MC_TmplSeq  == <<"A", "B">>
MC_InitFits == <<{"A", "B"}, {"A", "B"}, {"A", "B"}>>
MC_Strat    == BaseStrat
MC_Strat2   == [BaseStrat EXCEPT !.maxUnavailable = IP(2, FALSE), !.slowStartIncrease = IP(1, FALSE)]
MC_OldDS == "old"     \* migration configurations: OldDS <- MC_OldDS
MC_StratPct == [BaseStrat EXCEPT !.maxUnavailable = IP(50, TRUE), !.slowStartIncrease = IP(34, TRUE)]
=============================================================================
