---------------------------- MODULE Gen_Promotion ----------------------------
(***************************************************************************)
(* Vector generator for C05 (binding B3): the promotion decision of one    *)
(* real ExtendedDaemonSet reconcile.  A canary (active replica set A,      *)
(* canary replica set B on n1) is materialised at every combination of     *)
(*   validation mode {auto, manual} x noRestartsDuration {unset, 0, 3}     *)
(*   x age of B relative to the duration 6 {3, 5, 6, 7, 9, 12}             *)
(*   x latest restart recorded on B {none, 0, 1, 2, 3, 4, 8 units ago}     *)
(*     (so restarts before AND after the end of the duration, inside and   *)
(*     outside the restart-free window)                                    *)
(*   x Canary-Paused / Canary-Failed condition of B x pause / unpause      *)
(*   annotation x canary-valid annotation {none, B, a name matching no     *)
(*   replica set}.                                                         *)
(* One EDS reconcile per vector; Trace.tla judges the status write with    *)
(* C05_Step (PromotionAllowed on the state read) and C08 (not C14: the     *)
(* materialised pause carries no reason, which no real pause does).         *)
(***************************************************************************)
EXTENDS Integers, Sequences, SequencesExt, FiniteSets, TLC, Json

CONSTANTS OutFile, Full

Strategy(mode, nr) ==
    [MaxUnavailable |-> "1", MaxSchedFailure |-> "0", MaxParallel |-> 250, SlowStartInterval |-> 1, SlowStartIncrease |-> "5", Frequency |-> 1,
     Canary |-> TRUE, CReplicas |-> "1", CDuration |-> (IF mode = "manual" THEN 0 ELSE 6), CNoRestarts |-> (IF mode = "manual" THEN -1 ELSE nr), CMode |-> mode,
     APEnabled |-> TRUE, APMaxRestarts |-> 2, APMaxSlowStart |-> 0, AFEnabled |-> TRUE, AFMaxRestarts |-> 5, AFMaxRestartsDur |-> 0, AFTimeout |-> 0]

Conds(paused0, failed0, rst, canaryAge) ==
    << [type |-> "Canary", true |-> TRUE, ltt |-> canaryAge, lut |-> canaryAge] >> \o
    (IF paused0 THEN << [type |-> "Canary-Paused", true |-> TRUE, ltt |-> 2, lut |-> 1] >> ELSE <<>>) \o
    (IF failed0 THEN << [type |-> "Canary-Failed", true |-> TRUE, ltt |-> 1, lut |-> 1] >> ELSE <<>>) \o
    (IF rst >= 0 THEN << [type |-> "PodRestarting", true |-> TRUE, ltt |-> rst, lut |-> rst] >> ELSE <<>>) \o
    << [type |-> "LastFullSync", true |-> TRUE, ltt |-> canaryAge, lut |-> 1] >>

Pod(node, t, restarts, rage, canary) ==
    [node |-> node, tmpl |-> t, rs |-> t, phase |-> "Running", ready |-> TRUE, term |-> FALSE, stuck |-> FALSE, unsched |-> FALSE,
     restarts |-> restarts, restartAge |-> rage, waiting |-> "", startAge |-> 2, clabel |-> canary, age |-> 2, res |-> ""]

Vec(mode, nr, ageB, rst, p0, f0, cp, cu, cv) ==
    [label |-> "promotion", affinity |-> FALSE, reps |-> 1, strategy |-> Strategy(mode, nr),
     nodes |-> [i \in 1..3 |-> [name |-> "n" \o ToString(i), fits |-> "A,B", csel |-> TRUE, zone |-> "z1", taint |-> FALSE, override |-> "none", group |-> ""]],
     eds |-> [tmpl |-> "B", ruPaused |-> FALSE, frozen |-> FALSE, cPaused |-> cp, cUnpaused |-> cu, cValid |-> cv, active |-> "A",
              canary |-> "B", cNodes |-> <<"n1">>, desired |-> 3, state |-> "Canary"],
     rs |-> << [tmpl |-> "A", age |-> 20, status |-> "active", counters |-> <<2, 2, 2, 2>>,
                conds |-> << [type |-> "Active", true |-> TRUE, ltt |-> 18, lut |-> 18], [type |-> "LastFullSync", true |-> TRUE, ltt |-> 18, lut |-> 1] >>],
               [tmpl |-> "B", age |-> ageB, status |-> "canary", counters |-> <<1, 1, 1, 1>>, conds |-> Conds(p0, f0, rst, ageB)] >>,
     pods |-> << Pod("n1", "B", IF rst >= 0 THEN 1 ELSE 0, rst, TRUE), Pod("n2", "A", 0, -1, FALSE), Pod("n3", "A", 0, -1, FALSE) >>,
     steps |-> << [op |-> "EDSReconcile"] >>]

Ages == IF Full THEN {3, 5, 6, 7, 9, 12} ELSE {5, 7, 9}
Rsts == IF Full THEN {-1, 0, 1, 2, 3, 4, 8} ELSE {-1, 1, 2, 4}

\* restarts cannot be older than the replica set
Auto == { Vec("auto", nr, a, r, p0, f0, cp, cu, cv) :
            nr \in {-1, 0, 3}, a \in Ages, r \in Rsts, p0 \in BOOLEAN, f0 \in BOOLEAN,
            cp \in {"", "true"}, cu \in (IF Full THEN {"", "true"} ELSE {""}), cv \in {"", "B", "?"} }
Manual == { Vec("manual", -1, a, r, p0, f0, cp, "", cv) :
            a \in {5, 9}, r \in {-1, 2}, p0 \in BOOLEAN, f0 \in BOOLEAN, cp \in {"", "true"}, cv \in {"", "B", "?"} }

Space == { v \in Auto \cup Manual : LET r == v.rs[2].conds IN \A i \in DOMAIN r : r[i].type = "PodRestarting" => r[i].lut <= v.rs[2].age }

ASSUME PrintT(<<"VECTORS", Cardinality(Space)>>)
ASSUME ndJsonSerialize(OutFile, SetToSeq(Space))
=============================================================================
