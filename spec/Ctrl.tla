------------------------------- MODULE Ctrl -------------------------------
(***************************************************************************)
(* The decision procedures of the controllers, transcribed from the code   *)
(* (one operator per function of the implementation), over the abstract    *)
(* state records of Abs.tla.  They are used                                *)
(*   - by Cluster.tla as the bodies of the reconcile actions, and          *)
(*   - by Conf.tla to decide whether a RECORDED reconcile of the real code *)
(*     is one of the outcomes the model allows (conformance).              *)
(* Nondeterminism of the implementation (Go map order, the in-memory       *)
(* failed-pod back-off) appears as sets of possible decisions.             *)
(*                                                                         *)
(* controllers/extendeddaemonsetreplicaset/filters.go  -> FilterAndMap     *)
(* .../strategy/limits/limits.go                        -> Limits          *)
(* .../strategy/rollingupdate.go                        -> ManageDeployment*)
(* .../strategy/canary.go                               -> ManageCanary    *)
(* .../strategy/unknown.go                              -> ManageUnknown   *)
(* controllers/extendeddaemonset/controller.go          -> EDS*            *)
(***************************************************************************)
EXTENDS Abs

-----------------------------------------------------------------------------
(* FilterAndMapPodsByNode *)

\* the active replica set leaves the canary nodes alone; the canary replica set manages the canary nodes only
IgnoredNodes(s, d, role) == IF role = "active" THEN CNodes(d)
                            ELSE IF role = "canary" THEN NodeNames(s) \ CNodes(d)
                            ELSE {}

FitNodes(s, d, r, role) == { n \in NodeNames(s) \ IgnoredNodes(s, d, role) : Fits(s, n, r.tmpl) }

\* pods the sync lists: own namespace, EDS name label (plus the old DaemonSet's pods)
Listed(s, d) == { p \in OwnPods(s, d) : p.node # "" /\ p.phase # "Unknown" }

\* FD: the failed pods the back-off lets the sync delete now (any subset of the failed pods on fit nodes)
FailedCandidates(s, d, r, role) == { p \in Listed(s, d) : p.phase = "Failed" /\ p.node \in FitNodes(s, d, r, role) }

\* pods that enter the per-node lists
OnFit(s, d, r, role, FD) == { p \in Listed(s, d) : p.node \in FitNodes(s, d, r, role) /\ p \notin FD }

\* the pod kept for node n: scheduled first, then oldest (ties by name in the code: any candidate here)
KeptSet(s, d, r, role, FD, n) == KeptCandidates({ p \in OnFit(s, d, r, role, FD) : p.node = n })

\* clean-up: failed pods released by the back-off, pods on nodes that are neither fit nor ignored (not already
\* terminating), duplicates (everything on a fit node but the kept pod).  deletePodSlice skips pods that are
\* already terminating, so only the others are written.
CleanUpPods(s, d, r, role, FD, kept) ==
    FD \cup
    { q \in Listed(s, d) : q.node \notin FitNodes(s, d, r, role) /\ q.node \notin IgnoredNodes(s, d, role) /\ ~q.term } \cup
    { q \in OnFit(s, d, r, role, FD) : q # kept[q.node] }
CleanUp(s, d, r, role, FD, kept) == { p.id : p \in { q \in CleanUpPods(s, d, r, role, FD, kept) : ~q.term } }

\* all consistent choices of "kept": a function from fit nodes to the kept pod (or NoPod)
NoPod == [id |-> 0]
KeptChoices(s, d, r, role, FD) ==
    LET F      == FitNodes(s, d, r, role)
        KS(n)  == KeptSet(s, d, r, role, FD, n)
        Det(n) == IF KS(n) = {} THEN NoPod ELSE CHOOSE p \in KS(n) : TRUE
        Ties   == { n \in F : Cardinality(KS(n)) > 1 }
    IN IF Ties = {} THEN { [n \in F |-> Det(n)] }
       ELSE { [n \in F |-> IF n \in Ties THEN t[n] ELSE Det(n)] :
                t \in { f \in [Ties -> UNION { KS(n) : n \in Ties }] : \A n \in Ties : f[n] \in KS(n) } }

-----------------------------------------------------------------------------
(* compareCurrentPodWithNewPod *)

SettingsFor(s, d, n) ==
    { x \in SeqToSet(s.settings) : x.ns = d.ns /\ x.ref = d.name /\ x.status = "valid" /\ SetMatches(s, x, n) }

OverrideValid(s, n) == HasNode(s, n) /\ NodeOf(s, n).override \in {"r1", "r2", "r3"}

\* getNodeList attaches the FIRST valid setting, in list order, that selects the node (several can only be valid while statuses are stale)
FirstSettingFor(s, d, n) ==
    LET I == { i \in DOMAIN s.settings : s.settings[i] \in SettingsFor(s, d, n) } IN s.settings[CHOOSE i \in I : \A j \in I : i <= j]

PodUpToDate(s, d, r, p) ==
    /\ p.hash = r.gen
    /\ (SettingsFor(s, d, p.node) = {} \/ OverrideValid(s, p.node)
          \/ LET x == FirstSettingFor(s, d, p.node) IN x.res = p.res \/ x.res = "tmpl")
    /\ p.nodeHash = "ok"

-----------------------------------------------------------------------------
(* limits.CalculatePodToCreateAndDelete *)

Clamp0(x) == IF x < 0 THEN 0 ELSE x

LimitCreate(nbNodes, nbPods, maxCreation) == Clamp0(Min2(nbNodes - nbPods, maxCreation))

LimitDelete(nbNodes, unresp, maxUnsched, avail, oldAvail, oldUnavail, maxUnav) ==
    Clamp0(Min2(maxUnav - (nbNodes - Min2(unresp, maxUnsched) - avail - oldAvail) + oldUnavail, maxUnav))

\* calculateMaxCreation (after the fix: a non-positive interval means no ramp)
MaxCreation(strat, nbNodes, activeCond) ==
    LET incr == Resolve(strat.slowStartIncrease, nbNodes)
        t    == IF activeCond.present /\ activeCond.true THEN activeCond.ltt ELSE 0
    IN IF strat.slowStartInterval <= 0 THEN strat.maxParallel
       ELSE Min2((1 + (t \div strat.slowStartInterval)) * incr, strat.maxParallel)

-----------------------------------------------------------------------------
(* ManageDeployment: the decisions of an active-role sync given kept : node -> pod *)

Act(s, d, r, kept) ==
    LET F        == DOMAIN kept
        N        == Cardinality(F)
        podOf(n) == kept[n]
        Has(n)   == kept[n] # NoPod
        StuckN   == { n \in F : Has(n) /\ podOf(n).stuck }
        Live     == { n \in F : Has(n) /\ ~podOf(n).stuck }
        UpN      == { n \in Live : PodUpToDate(s, d, r, podOf(n)) }
        OldN     == Live \ UpN
        OldTerm  == { n \in OldN : podOf(n).term }
        ToDel    == OldN \ OldTerm
        OldAv    == { n \in ToDel : podOf(n).ready }
        OldUnav  == ToDel \ OldAv
        Missing  == { n \in F : ~Has(n) }
        maxSF    == Resolve(d.strat.maxSchedFailure, N)
        maxU     == Resolve(d.strat.maxUnavailable, N)
        maxC     == MaxCreation(d.strat, N, r.conds.Active)
        nbCreate == LimitCreate(N, Cardinality(Live), maxC)
        nbDelete == LimitDelete(N, Cardinality(StuckN), maxSF, Cardinality({ n \in UpN : podOf(n).ready }), Cardinality(OldAv), Cardinality(OldUnav), maxU)
    IN [ nodes    |-> F,
         missing  |-> Missing,
         toDel    |-> ToDel,
         oldUnav  |-> OldUnav,
         oldAv    |-> OldAv,
         nbCreate |-> Min2(nbCreate, Cardinality(Missing)),
         nbDelete |-> Min2(nbDelete, Cardinality(ToDel)),
         desired  |-> N,
         current  |-> Cardinality(UpN),
         ready    |-> Cardinality({ n \in UpN : podOf(n).ready }),
         available |-> Cardinality({ n \in UpN : podOf(n).ready }),
         ignored  |-> Cardinality(StuckN) ]

\* the sets of nodes whose pod an active sync may delete: exactly nbDelete of them, unavailable ones first
DeleteChoices(a) ==
    IF a.nbDelete <= Cardinality(a.oldUnav)
    THEN { D \in SUBSET a.oldUnav : Cardinality(D) = a.nbDelete }
    ELSE { a.oldUnav \cup D : D \in { X \in SUBSET a.oldAv : Cardinality(X) = a.nbDelete - Cardinality(a.oldUnav) } }

CreateChoices(a) == { C \in SUBSET a.missing : Cardinality(C) = a.nbCreate }

-----------------------------------------------------------------------------
(* manageCanaryStatus / manageCanaryPodFailures *)

Can(s, d, r, kept) ==
    LET CN       == CNodes(d)
        InMap(n) == n \in DOMAIN kept
        Has(n)   == InMap(n) /\ kept[n] # NoPod
        ToCreate == { n \in CN : InMap(n) /\ ~Has(n) }
        Term     == { n \in CN : Has(n) /\ kept[n].term }
        ToDelete == { n \in CN : Has(n) /\ ~kept[n].term /\ ~PodUpToDate(s, d, r, kept[n]) }
        Cur      == { n \in CN : Has(n) /\ ~kept[n].term /\ PodUpToDate(s, d, r, kept[n]) }
        pods     == { kept[n] : n \in Cur }
        failed0  == r.conds.CanaryFailed.true
        paused0  == r.conds.CanaryPaused.true \/ d.cPaused
        unpaused == d.cUnpaused
        st       == d.strat
        \* per-pod facts
        \* instants are compared in whole units: real > T units <=> floor age >= T (see DESIGN, time)
        CannotStart(p) == IF p.waiting = "cannotStart"
                          THEN ~(st.apMaxSlowStart >= 0 /\ p.startAge < st.apMaxSlowStart)   \* not (within the slow-start allowance)
                          ELSE st.apEnabled /\ p.waiting = "creating" /\ st.apMaxSlowStart >= 0 /\ p.startAge >= st.apMaxSlowStart
        canaryAge == IF r.conds.Canary.present /\ r.conds.Canary.true THEN r.conds.Canary.ltt ELSE 0
        FailBy(p) == st.afEnabled /\
                       ( p.restarts > st.afMaxRestarts
                         \/ (st.afMaxRestartsDur >= 0 /\ r.conds.PodRestarting.present /\ (r.conds.PodRestarting.ltt - r.conds.PodRestarting.lut) > st.afMaxRestartsDur)
                         \/ (st.afTimeout >= 0 /\ canaryAge >= st.afTimeout) )
        PauseBy(p) == st.apEnabled /\ (CannotStart(p) \/ p.restarts > st.apMaxRestarts)
        failed   == failed0 \/ \E p \in pods : FailBy(p)
        \* the loop runs over the pods in list order and stops evaluating after the first failing pod: the pods
        \* evaluated before it are any subset S of the non-failing ones (all of them when no pod fails)
        nf       == { p \in pods : ~FailBy(p) }
        prefixes == IF nf = pods THEN {nf} ELSE SUBSET nf
        pausedOf(S) == IF unpaused THEN (IF S = {} THEN paused0 ELSE FALSE)
                       ELSE paused0 \/ \E p \in S : PauseBy(p)
        pausedSet == IF failed0 THEN {paused0}
                     ELSE IF pods = {} THEN {IF unpaused THEN FALSE ELSE paused0}
                     ELSE { pausedOf(S) : S \in prefixes }
    IN [ toCreate |-> ToCreate, toDelete |-> ToDelete, failed |-> failed, pausedSet |-> pausedSet,
         desired  |-> Cardinality(CN),
         current  |-> Cardinality(Cur),
         ready    |-> Cardinality({ n \in Cur : kept[n].ready }),
         available |-> Cardinality({ n \in Cur : kept[n].ready }),
         labels   |-> { kept[n].id : n \in { m \in CN : Has(m) /\ kept[m].rsl = r.id /\ ~kept[m].clabel } } ]

-----------------------------------------------------------------------------
(* ManageUnknown *)

Unk(s, d, r, kept) ==
    LET F   == DOMAIN kept \ CNodes(d)
        UpN == { n \in F : kept[n] # NoPod /\ PodUpToDate(s, d, r, kept[n]) /\ ~kept[n].stuck }
    IN [ desired |-> 0, current |-> Cardinality(UpN), ready |-> Cardinality({ n \in UpN : kept[n].ready }),
         available |-> Cardinality({ n \in UpN : kept[n].ready }),
         ignored |-> Cardinality({ n \in F : kept[n] # NoPod /\ PodUpToDate(s, d, r, kept[n]) /\ kept[n].stuck }) ]

-----------------------------------------------------------------------------
(* ExtendedDaemonSet reconcile *)

\* the replica sets the reconcile lists: its namespace, its name label
ListedRS(s, d) == { x \in RSs(s) : x.ns = d.ns /\ x.eds = d.name }
UpToDateListed(s, d) == { x \in ListedRS(s, d) : x.hashAnn = d.tmpl }

CanaryEnded(d, u) ==
    /\ d.strat.cDuration >= 0
    /\ u.age >= d.strat.cDuration
    /\ (d.strat.cNoRestarts < 0 \/ ~u.conds.PodRestarting.present \/ u.conds.PodRestarting.lut >= d.strat.cNoRestarts)

\* strict / lenient variants at the unit boundary (the code compares nanoseconds, the projection whole units)
CanaryEndedMaybe(d, u) ==
    /\ d.strat.cDuration >= 0
    /\ u.age + 1 >= d.strat.cDuration
    /\ (d.strat.cNoRestarts < 0 \/ ~u.conds.PodRestarting.present \/ u.conds.PodRestarting.lut + 1 >= d.strat.cNoRestarts)

EDSPaused(d, u) == u.conds.CanaryPaused.true \/ d.cPaused
EDSFailed(u)    == u.conds.CanaryFailed.true

\* selectCurrentReplicaSet (after the fix: a failed canary is never promoted by time)
SelectCurrent(s, d, u, ended) ==
    IF d.active = u.id THEN u.id
    ELSE IF d.active <= 0 \/ ~HasRS(s, d.active) \/ RSOf(s, d.active) \notin ListedRS(s, d) THEN u.id
    ELSE IF ~d.strat.canary THEN u.id
    ELSE IF d.cValid = u.id \/ (~EDSPaused(d, u) /\ ~EDSFailed(u) /\ ended) THEN u.id
    ELSE d.active

\* cleanupReplicaSet
ShouldDeleteRS(x) ==
    /\ ~(x.conds.CanaryFailed.true /\ x.conds.CanaryFailed.ltt < 2)
    /\ x.desired + x.current + x.ready + x.available = 0

NonCanaryState(d) == IF d.frozen THEN "Rollout frozen" ELSE IF d.ruPaused THEN "RollingUpdate Paused" ELSE "Running"
=============================================================================
