--------------------------- MODULE SchedSettings ---------------------------
(* Schedule generation (binding B2) for the settings controller: behaviours of SettingsSys.tla produced by TLC's simulation
   mode, written as label sequences of the shared action vocabulary and replayed into the real ExtendedDaemonsetSetting and
   replica-set reconcilers by `edsim schedules`. *)
EXTENDS SettingsSys

VARIABLE sched
ssvars == <<svars, sched>>
CONSTANT Depth

SSInit == SInit /\ sched = <<sev.label>>
SSNext == SNext /\ sched' = Append(sched, sev'.label)
SchedPrint == IF Len(sched) = Depth THEN PrintT(<<"SCHED", sched>>) ELSE TRUE
SSSpec == SSInit /\ [][SSNext]_ssvars
=============================================================================
