--------------------------- MODULE SettingsProof ---------------------------
(***************************************************************************)
(* C18, unbounded: the verdict rule of the ExtendedDaemonsetSetting        *)
(* reconciler (Conf!SettingVerdict, the transcription of Reconcile +       *)
(* searchPossibleConflict) admits at most one valid setting per node for   *)
(* EVERY population of settings and nodes, not only the bounded ones TLC   *)
(* enumerates (SettingsSys.tla, Gen_Settings.tla).  Checked by TLAPS.      *)
(*                                                                         *)
(* Abstract reading: S settings, N nodes, Matches(x, n) "the selector of x *)
(* selects node n", Before(y, x) "y is sorted before x" (newest first,     *)
(* ties by the larger name), WellFormed(x) "x has a reference and a usable *)
(* selector".  The only fact about the order the argument needs is that it *)
(* is total on distinct settings - which holds for the code's order        *)
(* because creation instants are integers and names are distinct           *)
(* (lemma OrderTotal below, over the concrete definition).                 *)
(***************************************************************************)
EXTENDS Integers, TLAPS

CONSTANTS S, N, Matches(_, _), Before(_, _), WellFormed(_)

Valid(x) == /\ WellFormed(x)
            /\ ~\E n \in N : \E y \in S : y # x /\ Matches(y, n) /\ Matches(x, n) /\ Before(y, x)

ASSUME Total == \A x, y \in S : x # y => Before(x, y) \/ Before(y, x)

THEOREM AtMostOneValid ==
    \A n \in N : \A x, y \in S : (Valid(x) /\ Valid(y) /\ Matches(x, n) /\ Matches(y, n)) => x = y
<1> SUFFICES ASSUME NEW n \in N, NEW x \in S, NEW y \in S,
                    Valid(x), Valid(y), Matches(x, n), Matches(y, n), x # y
             PROVE  FALSE
    OBVIOUS
<1>1. Before(x, y) \/ Before(y, x)
    BY Total
<1>2. CASE Before(y, x)
    <2>1. \E m \in N : \E z \in S : z # x /\ Matches(z, m) /\ Matches(x, m) /\ Before(z, x)
        BY <1>2
    <2> QED BY <2>1 DEF Valid
<1>3. CASE Before(x, y)
    <2>1. \E m \in N : \E z \in S : z # y /\ Matches(z, m) /\ Matches(y, m) /\ Before(z, y)
        BY <1>3
    <2> QED BY <2>1 DEF Valid
<1> QED BY <1>1, <1>2, <1>3

\* the overlapping others are in conflict: a setting that shares a node with a valid one is not valid
THEOREM OthersInConflict ==
    \A n \in N : \A x, y \in S : (Valid(x) /\ Matches(x, n) /\ Matches(y, n) /\ y # x) => ~Valid(y)
BY AtMostOneValid

-----------------------------------------------------------------------------
\* the code's order: creation instant (integer seconds) descending, ties by the position in the name-sorted list descending
CONSTANTS Born(_), Idx(_)
CodeBefore(y, x) == Born(y) > Born(x) \/ (Born(y) = Born(x) /\ Idx(y) > Idx(x))

THEOREM OrderTotal ==
    ASSUME \A x \in S : Born(x) \in Int /\ Idx(x) \in Int,
           \A x, y \in S : x # y => Idx(x) # Idx(y)
    PROVE  \A x, y \in S : x # y => CodeBefore(x, y) \/ CodeBefore(y, x)
BY DEF CodeBefore
=============================================================================
