------------------------------ MODULE Cluster ------------------------------
(***************************************************************************)
(* System model of DataDog/extendeddaemonset: a small cluster (nodes,      *)
(* daemon pods per node in creation order, one replica set per template,   *)
(* one ExtendedDaemonSet), the environment (kubelet, node churn, the       *)
(* user and the annotations kubectl-eds writes), virtual time as           *)
(* saturating ages, and the two main reconcilers as atomic actions whose   *)
(* bodies are the decision procedures of Ctrl.tla - the same operators     *)
(* Conf.tla checks recorded reconciles of the real code against.           *)
(*                                                                         *)
(* The model state is mapped to the abstract state record of Abs.tla by    *)
(* S; every action records the event it performed in `ev' (same shape as   *)
(* a harness event), so that the step formulas of Props.tla are checked    *)
(* on every transition of the model exactly as Trace.tla checks them on    *)
(* every recorded step of the code.                                        *)
(***************************************************************************)
EXTENDS Conf

CONSTANTS NodeSeq,        \* sequence of node names, e.g. <<"n1","n2","n3">>
          TmplSeq,        \* sequence of template identities, e.g. <<"A","B">>; replica set id = index
          Strat,          \* spec.strategy (record, same fields as the projection)
          InitFits,       \* sequence (aligned with NodeSeq) of the sets of templates each node fits initially
          EnvBudget,      \* number of environment disturbances (unready, fail, node churn, restarts, duplicates)
          EnvKinds,       \* kinds of disturbance the configuration allows: subset of {"unready","fail","restart","lost","dup","node","narrow"}
          EditBudget,     \* number of template edits by the user
          AnnBudget,      \* number of annotation toggles by the user
          MaxPerNode,     \* bound on pods per node (creation is disabled beyond it)
          AgeCap,         \* ages saturate here
          FaultBudget     \* number of faults (rejected write / process stop) between the two writes of a rollback

VARIABLES nd, pd, rv, ed, bud, ev,
          pend      \* the write an in-flight rollback of the EDS reconciler still has to issue (API-call grain, see below)
vars == <<nd, pd, rv, ed, bud, ev, pend>>
\* the stale status counters of the ExtendedDaemonSet only decide whether the next reconcile rewrites them
view == <<nd, pd, rv, [ed EXCEPT !.current = 0, !.ready = 0, !.available = 0, !.upToDate = 0], bud, pend>>

NodeIds == SeqToSet(NodeSeq)
Tmpls   == SeqToSet(TmplSeq)
TIdx(t) == CHOOSE i \in DOMAIN TmplSeq : TmplSeq[i] = t
NIdx(n) == CHOOSE i \in DOMAIN NodeSeq : NodeSeq[i] = n
NS      == "ns1"
EDSName == "foo"
EDSKey  == "ns1/foo"
RSName(i) == "rs-" \o TmplSeq[i]


NoCond == [present |-> FALSE, true |-> FALSE, ltt |-> -1, lut |-> -1, reason |-> ""]

\* condition update as conditions.UpdateExtendedDaemonSetReplicaSetStatusCondition does it
UpdCond(c, t, touch) ==
    IF c.present
    THEN IF c.true # t THEN [c EXCEPT !.true = t, !.ltt = 0, !.lut = 0]
         ELSE IF touch THEN [c EXCEPT !.lut = 0] ELSE c
    ELSE IF t THEN [present |-> TRUE, true |-> TRUE, ltt |-> 0, lut |-> 0, reason |-> ""] ELSE c

CondNames == {"Active", "Canary", "CanaryPaused", "CanaryFailed", "PodRestarting", "PodCannotStart", "LastFullSync",
              "PodCreation", "PodDeletion", "ReconcileError", "PodsCleanupDone", "RollingUpdatePaused", "RolloutFrozen", "Unschedule"}

NoRS     == [exists |-> FALSE]
NewRS(t) == [exists |-> TRUE, tmpl |-> t, age |-> 0, status |-> "", desired |-> 0, current |-> 0, ready |-> 0, available |-> 0,
             ignored |-> 0, conds |-> [c \in CondNames |-> NoCond]]

NewPod(t, i) == [hash |-> t, rs |-> i, phase |-> "", ready |-> FALSE, term |-> FALSE, clabel |-> FALSE, restarts |-> 0,
                 rAge |-> -1, sAge |-> -1]

\* Migration from a DaemonSet (annotation old-daemonset): when OldDS names one, every node starts with a running, ready pod owned by it
\* (rs = 0, no template hash, no ExtendedDaemonSet name label); the replica-set sync lists these pods with its own and replaces them
\* within the rolling-update budget.  OldDS is a definition so that a configuration can override it (OldDS <- ...).
OldDS == ""
DSPod == [NewPod("none", 0) EXCEPT !.phase = "Running", !.ready = TRUE, !.sAge = 0]
IsDSPod(p) == p.rs = 0 /\ p.hash = "none"

-----------------------------------------------------------------------------
(* abstraction: model variables -> abstract state record *)

PodId(n, i) == (NIdx(n) - 1) * MaxPerNode + i

AbsPodOf(p, n, i) ==
      [id |-> PodId(n, i), ns |-> NS, name |-> "", node |-> n, pin |-> "nodeName", pinAll |-> TRUE, eds |-> (IF IsDSPod(p) THEN "" ELSE EDSName),
       rsl |-> p.rs, owner |-> (IF IsDSPod(p) THEN "ds" ELSE "rs"), ownerRS |-> p.rs, ownerName |-> (IF IsDSPod(p) THEN OldDS ELSE ""), hash |-> p.hash, tol |-> TRUE, res |-> "tmpl", res2 |-> "tmpl",
       nodeHash |-> "ok", setLabel |-> "", phase |-> p.phase, ready |-> p.ready, term |-> p.term, sched |-> TRUE,
       stuck |-> FALSE, restarts |-> p.restarts, restartAge |-> p.rAge, waiting |-> "none", startAge |-> p.sAge,
       clabel |-> p.clabel, age |-> 0, born |-> i, foreign |-> FALSE]

RECURSIVE Flatten(_)
Flatten(q) == IF q = <<>> THEN <<>> ELSE Head(q) \o Flatten(Tail(q))

AbsPodsOf(pods) == Flatten([k \in DOMAIN NodeSeq |-> [i \in DOMAIN pods[NodeSeq[k]] |-> AbsPodOf(pods[NodeSeq[k]][i], NodeSeq[k], i)]])

AbsNodeOf(nodes, n) == [name |-> n, fits |-> SelectSeq(TmplSeq, LAMBDA t : t \in nodes[n].fits), csel |-> nodes[n].csel, zone |-> "",
                        taint |-> FALSE, override |-> "none", override2 |-> "none", slabel |-> ""]
AbsNodesOf(nodes) == LET pres == SelectSeq(NodeSeq, LAMBDA n : nodes[n].present) IN [k \in DOMAIN pres |-> AbsNodeOf(nodes, pres[k])]

AbsRSOf(rsv, i) ==
    LET r == rsv[i] IN
      [id |-> i, ns |-> NS, name |-> RSName(i), eds |-> EDSName, owner |-> EDSKey, tmpl |-> r.tmpl, hashAnn |-> r.tmpl,
       gen |-> r.tmpl, age |-> r.age, deleting |-> FALSE, status |-> r.status, desired |-> r.desired, current |-> r.current,
       ready |-> r.ready, available |-> r.available, ignored |-> r.ignored, conds |-> r.conds]
AbsRSsOf(rsv) == LET ex == SelectSeq([i \in DOMAIN TmplSeq |-> i], LAMBDA i : rsv[i].exists) IN [k \in DOMAIN ex |-> AbsRSOf(rsv, ex[k])]

AbsEDSOf(e) ==
    [key |-> EDSKey, ns |-> NS, name |-> EDSName, defaulted |-> e.defaulted, tmpl |-> e.tmpl, strat |-> Strat,
     ruPaused |-> e.ruPaused, frozen |-> e.frozen, cPaused |-> e.cPaused, cUnpaused |-> e.cUnpaused, cValid |-> e.cValid,
     oldDS |-> OldDS, active |-> e.active, activeName |-> (IF e.active > 0 THEN RSName(e.active) ELSE ""),
     hasCanary |-> e.hasCanary, canaryRS |-> e.canaryRS, cNodes |-> e.cNodes, state |-> e.state, reason |-> e.reason,
     desired |-> e.desired, current |-> e.current, ready |-> e.ready, available |-> e.available, upToDate |-> e.upToDate,
     ignored |-> 0, condPaused |-> e.condPaused, condFailed |-> e.condFailed]

AbsOf(nodes, pods, rsv, e) ==
    [now |-> 0, nodes |-> AbsNodesOf(nodes), pods |-> AbsPodsOf(pods), rs |-> AbsRSsOf(rsv), eds |-> <<AbsEDSOf(e)>>,
     settings |-> <<>>, ptmpl |-> <<>>]

\* the abstraction of the current state; every action stores it in ev.state, so it is read back rather than recomputed
S  == ev.state

-----------------------------------------------------------------------------
(* events *)

Wr(verb, kind, id, node, hash, rsid, what) ==
    [seq |-> 0, verb |-> verb, kind |-> kind, ns |-> NS, name |-> (IF kind = "EDS" THEN EDSName ELSE ""), id |-> id, node |-> node,
     hash |-> hash, rs |-> rsid, eds |-> (IF kind = "EDS" THEN "" ELSE EDSName),
     owner |-> (IF kind = "ERS" THEN "ExtendedDaemonSet/" \o EDSName ELSE ""), ready |-> FALSE, phase |-> "", term |-> FALSE,
     ok |-> TRUE, inj |-> "", what |-> what]

Number(ws) == [i \in DOMAIN ws |-> [ws[i] EXCEPT !.seq = i]]
SetSeq(X)  == IF X = {} THEN <<>> ELSE LET RECURSIVE F(_) F(Y) == IF Y = {} THEN <<>> ELSE LET y == CHOOSE z \in Y : TRUE IN <<y>> \o F(Y \ {y}) IN F(X)

NoRes == [requeue |-> FALSE, after |-> 0, err |-> FALSE, errMsg |-> "", errKind |-> "", panic |-> FALSE, nErrs |-> 0]
Event(name, key, rsid, ws, res, post) ==
    [ev |-> name, key |-> key, rs |-> rsid, args |-> [x |-> ""], reads |-> 0, writes |-> Number(ws), res |-> res, state |-> post,
     label |-> IF rsid > 0 THEN name \o ":" \o ToString(rsid) ELSE name]

\* label = the entry of the shared action vocabulary (DESIGN appendix B) a schedule replays into the real code
EnvEventL(name, label, post) == [Event(name, "", 0, <<>>, NoRes, post) EXCEPT !.label = label]
EnvEvent(name, post) == EnvEventL(name, name, post)

-----------------------------------------------------------------------------
Init ==
    /\ nd = [n \in NodeIds |-> [present |-> TRUE, fits |-> InitFits[NIdx(n)], csel |-> TRUE]]
    /\ pd = [n \in NodeIds |-> IF OldDS = "" THEN <<>> ELSE <<DSPod>>]
    /\ rv = [i \in DOMAIN TmplSeq |-> NoRS]
    /\ ed = [defaulted |-> FALSE, tmpl |-> TmplSeq[1], ruPaused |-> FALSE, frozen |-> FALSE, cPaused |-> FALSE, cUnpaused |-> FALSE,
             cValid |-> 0, active |-> 0, hasCanary |-> FALSE, canaryRS |-> 0, cNodes |-> <<>>, state |-> "", reason |-> "", desired |-> 0,
             current |-> 0, ready |-> 0, available |-> 0, upToDate |-> 0, condPaused |-> NoCond, condFailed |-> NoCond]
    /\ bud = [env |-> EnvBudget, edit |-> EditBudget, ann |-> AnnBudget, fault |-> FaultBudget]
    /\ pend = <<>>
    /\ ev = [ev |-> "init", label |-> "init", state |-> AbsOf(nd, pd, rv, ed)]

-----------------------------------------------------------------------------
(* time: every age grows by one unit and saturates at the smallest value from which the controllers can no longer   *)
(* tell it from a larger one (per field, derived from the strategy) - this keeps time from multiplying states.      *)

BumpTo(x, cap) == IF x < 0 THEN x ELSE IF x >= cap THEN cap ELSE x + 1
Pos(x) == IF x < 0 THEN 0 ELSE x

NNodes == Len(NodeSeq)
RampMatters == Resolve(Strat.slowStartIncrease, NNodes) < NNodes /\ Strat.maxParallel > Resolve(Strat.slowStartIncrease, NNodes)
CapOf(c) ==
    CASE c = "LastFullSync" -> Pos(Strat.frequency)
      [] c = "PodCreation"  -> Pos(Strat.frequency)
      [] c = "PodDeletion"  -> Pos(Strat.frequency)
      [] c = "Active"       -> IF RampMatters THEN AgeCap ELSE 0
      [] c = "Canary"       -> Pos(Strat.afTimeout)
      [] c = "CanaryFailed" -> 2
      [] c = "PodRestarting" -> Max2(Pos(Strat.cNoRestarts), Pos(Strat.afMaxRestartsDur))
      [] OTHER              -> 0
RSAgeCap == IF Strat.canary THEN Min2(AgeCap, Pos(Strat.cDuration)) ELSE 0

BumpCond(c, name) == IF c.present THEN [c EXCEPT !.ltt = BumpTo(@, CapOf(name)), !.lut = BumpTo(@, CapOf(name))] ELSE c
TickRS(r)   == IF r.exists THEN [r EXCEPT !.age = BumpTo(@, RSAgeCap), !.conds = [c \in CondNames |-> BumpCond(@[c], c)]] ELSE r
TickPod(p)  == [p EXCEPT !.rAge = BumpTo(@, Pos(Strat.cNoRestarts)), !.sAge = BumpTo(@, Pos(Strat.apMaxSlowStart))]

Tick ==
    LET rv2 == [i \in DOMAIN rv |-> TickRS(rv[i])]
        pd2 == [n \in NodeIds |-> [k \in DOMAIN pd[n] |-> TickPod(pd[n][k])]]
    IN /\ <<rv2, pd2>> # <<rv, pd>>
       /\ rv' = rv2 /\ pd' = pd2
       /\ UNCHANGED <<nd, ed, bud>>
       /\ ev' = EnvEvent("Tick", AbsOf(nd, pd2, rv2, ed))

-----------------------------------------------------------------------------
(* ExtendedDaemonSet reconcile (controllers/extendeddaemonset/controller.go), atomic *)

SumRS(f(_)) == LET ex == { i \in DOMAIN rv : rv[i].exists } IN SumOver(ex, LAMBDA i : f(rv[i]))

\* selectNodes as a relation: keep the listed nodes unless they are (present and selected but) unfit; add valid
\* nodes up to nb; fewer than nb => error
SelectorMatches(n) == nd[n].present /\ (Strat.cSelector => nd[n].csel)
CanaryListChoices(cur, u, nb) ==
    LET keep == SelectSeq(cur, LAMBDA n : ~(SelectorMatches(n) /\ u.tmpl \notin nd[n].fits))
        have == SeqToSet(keep)
        cand == { n \in NodeIds \ have : SelectorMatches(n) /\ u.tmpl \in nd[n].fits }
        need == nb - Len(keep)
    IN IF need <= 0 THEN { keep }
       \* the candidates are taken in ascending order of the restarts of the daemon pods they carry (ties in any order)
       ELSE LET RECURSIVE SumR(_)
                SumR(q) == IF q = <<>> THEN 0 ELSE Head(q).restarts + SumR(Tail(q))
                R(n) == SumR(pd[n])
            IN { keep \o SelectSeq(NodeSeq, LAMBDA n : n \in A) :
                   A \in { X \in SUBSET cand : Cardinality(X) = Min2(need, Cardinality(cand)) /\ \A n \in X : \A m \in cand \ X : R(n) <= R(m) } }

EDSReconcile ==
    LET s == S  d == AbsEDSOf(ed) IN
    IF ~ed.defaulted
    THEN /\ ed' = [ed EXCEPT !.defaulted = TRUE]
         /\ UNCHANGED <<nd, pd, rv, bud>>
         /\ ev' = Event("EDSReconcile", EDSKey, 0, <<Wr("update", "EDS", 0, "", "", 0, "strategy")>>, [NoRes EXCEPT !.requeue = TRUE], AbsOf(nd, pd, rv, ed'))
    ELSE IF UpToDateListed(s, d) = {}
    THEN LET i == TIdx(ed.tmpl) IN
         /\ rv' = [rv EXCEPT ![i] = NewRS(ed.tmpl)]
         /\ UNCHANGED <<nd, pd, ed, bud>>
         /\ ev' = Event("EDSReconcile", EDSKey, 0, <<Wr("create", "ERS", i, "", ed.tmpl, 0, "")>>, [NoRes EXCEPT !.requeue = TRUE], AbsOf(nd, pd, rv', ed))
    ELSE LET u      == CHOOSE x \in UpToDateListed(s, d) : TRUE
             cur    == SelectCurrent(s, d, u, CanaryEnded(d, u))
             curR   == RSOf(s, cur)
             gc     == { x.id : x \in { y \in ListedRS(s, d) : y.id # cur /\ y.id # u.id /\ ShouldDeleteRS(y) } }
             rv2    == [i \in DOMAIN rv |-> IF i \in gc THEN NoRS ELSE rv[i]]
             failed == Strat.canary /\ EDSFailed(u)
             paused == EDSPaused(d, u)
             cact   == Strat.canary /\ ~failed /\ cur # u.id
             base   == [ed EXCEPT !.current = SumRS(LAMBDA r : r.current), !.ready = SumRS(LAMBDA r : r.ready),
                                  !.available = SumRS(LAMBDA r : r.available), !.active = cur, !.desired = curR.desired,
                                  !.upToDate = curR.current, !.state = NonCanaryState(d), !.reason = ""]
             withC  == IF ~Strat.canary THEN base
                       ELSE LET c1 == [base EXCEPT !.condFailed = UpdCond(@, failed, FALSE), !.condPaused = UpdCond(@, paused /\ ~failed, FALSE)]
                            IN IF failed THEN [c1 EXCEPT !.hasCanary = FALSE, !.canaryRS = 0, !.cNodes = <<>>, !.state = "Canary Failed", !.tmpl = curR.tmpl]
                               ELSE IF cact THEN [c1 EXCEPT !.hasCanary = TRUE, !.canaryRS = u.id, !.desired = @ + u.desired, !.upToDate = u.current,
                                                           !.state = IF paused THEN "Canary Paused" ELSE "Canary",
                                                           !.reason = IF paused THEN "paused" ELSE ""]   \* (the condition's / annotation's reason, or Unknown: never empty)
                               ELSE [c1 EXCEPT !.hasCanary = FALSE, !.canaryRS = 0, !.cNodes = <<>>, !.cPaused = FALSE, !.cUnpaused = FALSE]
             nb     == Resolve(Strat.cReplicas, ed.desired)
             gcW    == [k \in DOMAIN SetSeq(gc) |-> Wr("delete", "ERS", SetSeq(gc)[k], "", TmplSeq[SetSeq(gc)[k]], 0, "")]
         IN \E nodes2 \in (IF cact /\ nb # Len(withC.cNodes) THEN CanaryListChoices(withC.cNodes, u, nb) ELSE { withC.cNodes }) :
              LET enough == ~(cact /\ nb # Len(withC.cNodes)) \/ Len(nodes2) >= nb
                  ed2    == IF enough THEN [withC EXCEPT !.cNodes = nodes2] ELSE ed
                  stW    == IF ed2 # ed THEN <<Wr("status", "EDS", 0, "", "", 0, "status")>> ELSE <<>>
                  upW    == IF ed2 # ed /\ (failed \/ (Strat.canary /\ ~cact /\ (ed.cPaused \/ ed.cUnpaused))) THEN <<Wr("update", "EDS", 0, "", "", 0, "spec")>> ELSE <<>>
                  res    == IF enough THEN NoRes ELSE [NoRes EXCEPT !.err = TRUE, !.errKind = "nodes", !.nErrs = 1]
              IN /\ ed' = ed2
                 /\ rv' = rv2
                 /\ UNCHANGED <<nd, pd, bud>>
                 /\ ev' = Event("EDSReconcile", EDSKey, 0, gcW \o stW \o upW, res, AbsOf(nd, pd, rv2, ed2))

-----------------------------------------------------------------------------
(* ExtendedDaemonSetReplicaSet reconcile (controllers/extendeddaemonsetreplicaset), atomic *)

MarkTerm(q, n, ids) == [k \in DOMAIN q |-> IF PodId(n, k) \in ids THEN [q[k] EXCEPT !.term = TRUE] ELSE q[k]]
Relabel(q, n, on, off) == [k \in DOMAIN q |-> IF PodId(n, k) \in on THEN [q[k] EXCEPT !.clabel = TRUE]
                                               ELSE IF PodId(n, k) \in off THEN [q[k] EXCEPT !.clabel = FALSE] ELSE q[k]]

\* the writes and the next state of a sync of replica set i
DoERS(i, delIds, createNodes, labOn, labOff, newRS) ==
    LET t    == rv[i].tmpl
        pd2  == [n \in NodeIds |->
                   LET q1 == Relabel(MarkTerm(pd[n], n, delIds), n, labOn, labOff)
                   IN IF n \in createNodes THEN Append(q1, NewPod(t, i)) ELSE q1]
        rv2  == [rv EXCEPT ![i] = newRS]
        dW   == [k \in DOMAIN SetSeq(delIds) |-> LET id == SetSeq(delIds)[k]  p == PodOf(S, id) IN
                                                  [Wr("delete", "Pod", id, p.node, p.hash, p.rsl, "") EXCEPT !.ready = p.ready, !.phase = p.phase]]
        cW   == [k \in DOMAIN SetSeq(createNodes) |-> LET n == SetSeq(createNodes)[k] IN Wr("create", "Pod", PodId(n, Len(pd2[n])), n, t, i, "")]
        onW  == [k \in DOMAIN SetSeq(labOn) |-> LET id == SetSeq(labOn)[k] IN Wr("patch", "Pod", id, PodOf(S, id).node, PodOf(S, id).hash, i, "+clabel")]
        offW == [k \in DOMAIN SetSeq(labOff) |-> LET id == SetSeq(labOff)[k] IN Wr("patch", "Pod", id, PodOf(S, id).node, PodOf(S, id).hash, i, "-clabel")]
        sW   == <<[Wr("status", "ERS", i, "", t, 0, "status") EXCEPT !.name = RSName(i)]>>
    IN /\ \A n \in createNodes : Len(pd[n]) < MaxPerNode
       /\ pd' = pd2
       /\ rv' = rv2
       /\ UNCHANGED <<nd, ed, bud>>
       /\ ev' = Event("ERSReconcile", NS \o "/" \o RSName(i), i, onW \o offW \o dW \o cW \o sW, NoRes, AbsOf(nd, pd2, rv2, ed))

\* conditions every full sync touches
Synced(r, hadDel, hadCre) ==
    [r EXCEPT !.conds["LastFullSync"] = UpdCond(@, TRUE, TRUE),
              !.conds["PodDeletion"]  = IF hadDel THEN UpdCond(@, TRUE, TRUE) ELSE @,
              !.conds["PodCreation"]  = IF hadCre THEN UpdCond(@, TRUE, TRUE) ELSE @]

\* `all': the back-off lets every failed pod be deleted now (it eventually does: used for fairness only)
ERSRec(i, all) ==
    /\ rv[i].exists /\ ed.defaulted
    /\ LET s == S  r == RSOf(s, i)  d == AbsEDSOf(ed)  role == Role(d, r)  F == Strat.frequency IN
       /\ GateOpen(r.conds.LastFullSync, F)    \* with the gate closed the reconcile returns at once: a stuttering step
       /\ \E FD \in (IF all THEN {FailedCandidates(s, d, r, role)} ELSE SUBSET FailedCandidates(s, d, r, role)) :
          \E kept \in KeptChoices(s, d, r, role, FD) :
            LET clean == CleanUp(s, d, r, role, FD, kept) IN
            CASE role = "active" ->
                   LET a == Act(s, d, r, kept)
                       delOpen == ~d.ruPaused /\ ~d.frozen /\ GateOpen(r.conds.PodDeletion, F)
                       creOpen == ~d.frozen /\ GateOpen(r.conds.PodCreation, F)
                       window  == ~(r.conds.Active.present /\ r.conds.Active.true /\ r.conds.Active.ltt >= 5)
                       labOff  == IF window THEN { p.id : p \in { q \in Pods(s) : q.rsl = i /\ q.clabel } } ELSE {}
                   IN \E D \in (IF delOpen THEN DeleteChoices(a) ELSE {{}}) :
                      \E C \in (IF creOpen THEN CreateChoices(a) ELSE {{}}) :
                        LET r1 == [rv[i] EXCEPT !.status = "active", !.desired = a.desired, !.current = a.current, !.ready = a.ready,
                                                !.available = a.available, !.ignored = a.ignored,
                                                !.conds["Canary"] = UpdCond(@, FALSE, FALSE),
                                                !.conds["CanaryPaused"] = UpdCond(@, FALSE, FALSE),
                                                !.conds["CanaryFailed"] = UpdCond(@, FALSE, FALSE),
                                                !.conds["Active"] = UpdCond(@, ~d.ruPaused /\ ~d.frozen, FALSE)]
                        IN DoERS(i, clean \cup { kept[n].id : n \in D }, C, {}, labOff, Synced(r1, D # {}, C # {}))
              [] role = "canary" ->
                   LET c == Can(s, d, r, kept)
                       delOpen == GateOpen(r.conds.PodDeletion, F)
                       creOpen == GateOpen(r.conds.PodCreation, F)
                       D == IF delOpen THEN c.toDelete ELSE {}
                       curPods == { kept[n] : n \in { m \in CNodes(d) : m \in DOMAIN kept /\ kept[m] # NoPod /\ ~kept[m].term /\ PodUpToDate(s, d, r, kept[m]) } }
                       newest  == { p.restartAge : p \in { q \in curPods : q.restarts > 0 /\ q.restartAge >= 0 } }
                       rc      == r.conds.PodRestarting
                   IN \E pz \in c.pausedSet :
                        LET C  == IF creOpen /\ ~pz /\ ~c.failed THEN c.toCreate ELSE {}
                            r1 == [rv[i] EXCEPT !.status = IF c.failed THEN "canary-failed" ELSE "canary",
                                                !.desired = c.desired, !.current = c.current, !.ready = c.ready, !.available = c.available,
                                                !.conds["Canary"] = UpdCond(@, TRUE, FALSE),
                                                !.conds["Active"] = UpdCond(@, FALSE, FALSE),
                                                !.conds["CanaryFailed"] = UpdCond(@, c.failed, TRUE),
                                                !.conds["CanaryPaused"] = UpdCond(@, pz, TRUE),
                                                !.conds["PodRestarting"] =
                                                    IF newest # {} /\ (~rc.present \/ (CHOOSE x \in newest : \A y \in newest : x <= y) < rc.lut)
                                                    THEN LET m == CHOOSE x \in newest : \A y \in newest : x <= y IN
                                                         IF rc.present THEN [rc EXCEPT !.lut = m] ELSE [present |-> TRUE, true |-> TRUE, ltt |-> m, lut |-> m, reason |-> ""]
                                                    ELSE rc]
                        IN DoERS(i, clean \cup { kept[n].id : n \in D }, C, c.labels, {}, Synced(r1, D # {}, C # {}))
              [] OTHER ->
                   LET k == Unk(s, d, r, kept)
                       r1 == [rv[i] EXCEPT !.status = "unknown", !.desired = 0, !.current = k.current, !.ready = k.ready, !.available = k.available,
                                           !.ignored = k.ignored,
                                           !.conds["Canary"] = UpdCond(@, FALSE, FALSE), !.conds["Active"] = UpdCond(@, FALSE, FALSE)]
                   IN DoERS(i, {}, {}, {}, {}, Synced(r1, FALSE, FALSE))

ERSReconcile(i) == ERSRec(i, FALSE)

-----------------------------------------------------------------------------
(* environment: kubelet *)

SetPod(n, k, p) == pd' = [pd EXCEPT ![n][k] = p]

KReady(n, k) ==
    /\ k \in DOMAIN pd[n] /\ nd[n].present
    /\ ~pd[n][k].ready /\ ~pd[n][k].term /\ pd[n][k].phase \notin {"Failed", "Unknown"}
    /\ SetPod(n, k, [pd[n][k] EXCEPT !.ready = TRUE, !.phase = "Running", !.sAge = IF @ < 0 THEN 0 ELSE @])
    /\ UNCHANGED <<nd, rv, ed, bud>>
    /\ ev' = EnvEventL("KReady", "KReady:" \o n \o ":" \o ToString(k), AbsOf(nd, pd', rv, ed))

KFinish(n, k) ==
    /\ k \in DOMAIN pd[n] /\ pd[n][k].term
    /\ pd' = [pd EXCEPT ![n] = SubSeq(@, 1, k - 1) \o SubSeq(@, k + 1, Len(@))]
    /\ UNCHANGED <<nd, rv, ed, bud>>
    /\ ev' = EnvEventL("KFinish", "KFinish:" \o n \o ":" \o ToString(k), AbsOf(nd, pd', rv, ed))

Spend == bud.env > 0 /\ bud' = [bud EXCEPT !.env = @ - 1]

KUnready(n, k) ==
    /\ Spend /\ k \in DOMAIN pd[n] /\ pd[n][k].ready
    /\ SetPod(n, k, [pd[n][k] EXCEPT !.ready = FALSE])
    /\ UNCHANGED <<nd, rv, ed>>
    /\ ev' = EnvEventL("KUnready", "KUnready:" \o n \o ":" \o ToString(k), AbsOf(nd, pd', rv, ed))

KFail(n, k) ==
    /\ Spend /\ k \in DOMAIN pd[n] /\ ~pd[n][k].term /\ pd[n][k].phase # "Failed"
    /\ SetPod(n, k, [pd[n][k] EXCEPT !.ready = FALSE, !.phase = "Failed"])
    /\ UNCHANGED <<nd, rv, ed>>
    /\ ev' = EnvEventL("KFail", "KFail:" \o n \o ":" \o ToString(k), AbsOf(nd, pd', rv, ed))

KRestart(n, k) ==
    /\ Spend /\ k \in DOMAIN pd[n] /\ ~pd[n][k].term /\ pd[n][k].phase \in {"", "Running"}
    /\ SetPod(n, k, [pd[n][k] EXCEPT !.ready = FALSE, !.phase = "Running", !.restarts = @ + 1, !.rAge = 0, !.sAge = IF @ < 0 THEN 0 ELSE @])
    /\ UNCHANGED <<nd, rv, ed>>
    /\ ev' = EnvEventL("KRestart", "KRestart:" \o n \o ":" \o ToString(k), AbsOf(nd, pd', rv, ed))

\* the node is lost: the pod's phase becomes Unknown (the controller neither counts nor deletes such a pod)
KLost(n, k) ==
    /\ Spend /\ k \in DOMAIN pd[n] /\ pd[n][k].phase # "Unknown"
    /\ SetPod(n, k, [pd[n][k] EXCEPT !.ready = FALSE, !.phase = "Unknown"])
    /\ UNCHANGED <<nd, rv, ed>>
    /\ ev' = EnvEventL("KLost", "KLost:" \o n \o ":" \o ToString(k), AbsOf(nd, pd', rv, ed))

DupPod(n) ==
    /\ Spend /\ Len(pd[n]) >= 1 /\ Len(pd[n]) < MaxPerNode
    /\ pd' = [pd EXCEPT ![n] = Append(@, [NewPod(@[1].hash, @[1].rs) EXCEPT !.ready = FALSE])]
    /\ UNCHANGED <<nd, rv, ed>>
    /\ ev' = EnvEventL("ForeignPod", "ForeignPod:" \o n, AbsOf(nd, pd', rv, ed))

(* environment: nodes *)

NodeRemove(n) ==
    /\ Spend /\ nd[n].present
    /\ nd' = [nd EXCEPT ![n].present = FALSE]
    /\ UNCHANGED <<pd, rv, ed>>
    /\ ev' = EnvEventL("NodeRemove", "NodeRemove:" \o n, AbsOf(nd', pd, rv, ed))

NodeAdd(n) ==
    /\ Spend /\ ~nd[n].present
    /\ nd' = [nd EXCEPT ![n].present = TRUE]
    /\ UNCHANGED <<pd, rv, ed>>
    /\ ev' = EnvEventL("NodeAdd", "NodeAdd:" \o n, AbsOf(nd', pd, rv, ed))

NodeSetFits(n, F) ==
    /\ Spend /\ nd[n].fits # F
    /\ nd' = [nd EXCEPT ![n].fits = F]
    /\ UNCHANGED <<pd, rv, ed>>
    /\ ev' = EnvEventL("NodeSetFits", "NodeSetFits:" \o n \o ":" \o (IF "A" \in F THEN "A" ELSE "") \o (IF "B" \in F THEN "B" ELSE "") \o (IF "C" \in F THEN "C" ELSE ""), AbsOf(nd', pd, rv, ed))

(* user *)

SetTemplate(t) ==
    /\ bud.edit > 0 /\ ed.tmpl # t
    /\ ed' = [ed EXCEPT !.tmpl = t]
    /\ bud' = [bud EXCEPT !.edit = @ - 1]
    /\ UNCHANGED <<nd, pd, rv>>
    /\ ev' = EnvEventL("SetTemplate", "SetTemplate:" \o t, AbsOf(nd, pd, rv, ed'))

Toggle(f) ==
    /\ bud.ann > 0
    /\ ed' = [ed EXCEPT ![f] = ~@]
    /\ bud' = [bud EXCEPT !.ann = @ - 1]
    /\ UNCHANGED <<nd, pd, rv>>
    /\ ev' = EnvEventL("SetAnnotation", "Toggle:" \o f, AbsOf(nd, pd, rv, ed'))

\* kubectl-eds canary validate: names the replica set that is the canary now
Validate ==
    /\ bud.ann > 0 /\ ed.hasCanary /\ ed.cValid # ed.canaryRS
    /\ ed' = [ed EXCEPT !.cValid = ed.canaryRS]
    /\ bud' = [bud EXCEPT !.ann = @ - 1]
    /\ UNCHANGED <<nd, pd, rv>>
    /\ ev' = EnvEvent("CmdValidate", AbsOf(nd, pd, rv, ed'))

\* kubectl-eds canary pause / unpause
CmdPause ==
    /\ bud.ann > 0 /\ ed.hasCanary /\ ~ed.cPaused
    /\ ed' = [ed EXCEPT !.cPaused = TRUE, !.cUnpaused = FALSE]
    /\ bud' = [bud EXCEPT !.ann = @ - 1]
    /\ UNCHANGED <<nd, pd, rv>>
    /\ ev' = EnvEvent("CmdPause", AbsOf(nd, pd, rv, ed'))
CmdUnpause ==
    /\ bud.ann > 0 /\ ed.hasCanary /\ ~ed.cUnpaused
    /\ ed' = [ed EXCEPT !.cPaused = FALSE, !.cUnpaused = TRUE]
    /\ bud' = [bud EXCEPT !.ann = @ - 1]
    /\ UNCHANGED <<nd, pd, rv>>
    /\ ev' = EnvEvent("CmdUnpause", AbsOf(nd, pd, rv, ed'))

\* kubectl-eds canary fail: appends Canary-Failed = True ("Manually failed") to the status of the replica set that is the canary now
CmdFail ==
    /\ bud.ann > 0 /\ Strat.canary /\ ed.hasCanary /\ ed.canaryRS > 0 /\ rv[ed.canaryRS].exists
    /\ ~rv[ed.canaryRS].conds["CanaryFailed"].true
    /\ rv' = [rv EXCEPT ![ed.canaryRS].conds["CanaryFailed"] = [present |-> TRUE, true |-> TRUE, ltt |-> 0, lut |-> 0, reason |-> "Manually failed"]]
    /\ bud' = [bud EXCEPT !.ann = @ - 1]
    /\ UNCHANGED <<nd, pd, ed>>
    /\ ev' = EnvEvent("CmdFail", AbsOf(nd, pd, rv', ed))

-----------------------------------------------------------------------------
Kubelet == \E n \in NodeIds : \E k \in 1..MaxPerNode : KReady(n, k) \/ KFinish(n, k)
Disturb == \E n \in NodeIds : \/ \E k \in 1..MaxPerNode : \/ ("unready" \in EnvKinds /\ KUnready(n, k))
                                                          \/ ("fail" \in EnvKinds /\ KFail(n, k))
                                                          \/ ("restart" \in EnvKinds /\ KRestart(n, k))
                                                          \/ ("lost" \in EnvKinds /\ KLost(n, k))
                              \/ ("dup" \in EnvKinds /\ DupPod(n))
                              \/ ("node" \in EnvKinds /\ (NodeRemove(n) \/ NodeAdd(n)))
                              \/ ("narrow" \in EnvKinds /\ \E F \in SUBSET Tmpls : NodeSetFits(n, F))
Narrow  == \E n \in NodeIds : \E F \in SUBSET Tmpls : NodeSetFits(n, F)
User    == (\E t \in Tmpls : SetTemplate(t)) \/ Toggle("ruPaused") \/ Toggle("frozen")
CanaryUser == Validate \/ CmdPause \/ CmdUnpause \/ CmdFail
Sync    == EDSReconcile \/ \E i \in DOMAIN TmplSeq : ERSReconcile(i)

-----------------------------------------------------------------------------
(* API-call grain for the one multi-write path the properties single out (C07, C11): the rollback of a failed canary  *)
(* is a status write followed by a spec write.  RollbackBegin issues the first, RollbackFinish the second; between   *)
(* them every other actor may move, the spec write may be rejected (also by optimistic concurrency when the user      *)
(* edited the object meanwhile) and the process may stop.  The atomic EDSReconcile remains (= Begin . Finish).       *)

FailedCase ==
    LET s == S  d == AbsEDSOf(ed) IN
      /\ ed.defaulted /\ Strat.canary /\ UpToDateListed(s, d) # {}
      /\ LET u == CHOOSE x \in UpToDateListed(s, d) : TRUE IN
           EDSFailed(u) /\ SelectCurrent(s, d, u, CanaryEnded(d, u)) # u.id

RollbackBegin ==
    /\ pend = <<>> /\ FailedCase
    /\ LET s == S  d == AbsEDSOf(ed)
           u    == CHOOSE x \in UpToDateListed(s, d) : TRUE
           cur  == SelectCurrent(s, d, u, CanaryEnded(d, u))
           curR == RSOf(s, cur)
           ed2  == [ed EXCEPT !.current = SumRS(LAMBDA r : r.current), !.ready = SumRS(LAMBDA r : r.ready), !.available = SumRS(LAMBDA r : r.available),
                              !.active = cur, !.desired = curR.desired, !.upToDate = curR.current,
                              !.condFailed = UpdCond(@, TRUE, FALSE), !.condPaused = UpdCond(@, FALSE, FALSE),
                              !.hasCanary = FALSE, !.canaryRS = 0, !.cNodes = <<>>, !.state = "Canary Failed", !.reason = ""]
       IN /\ ed' = ed2
          /\ pend' = <<[tmpl |-> curR.tmpl, base |-> <<ed.tmpl, ed.ruPaused, ed.frozen, ed.cPaused, ed.cUnpaused, ed.cValid>>]>>
          /\ UNCHANGED <<nd, pd, rv, bud>>
          /\ ev' = Event("EDSStatusWrite", EDSKey, 0, <<Wr("status", "EDS", 0, "", "", 0, "status")>>, NoRes, AbsOf(nd, pd, rv, ed2))

RollbackFinish ==
    /\ pend # <<>>
    /\ LET same == pend[1].base = <<ed.tmpl, ed.ruPaused, ed.frozen, ed.cPaused, ed.cUnpaused, ed.cValid>>   \* else: conflict, the write is refused
           ed2  == IF same THEN [ed EXCEPT !.tmpl = pend[1].tmpl, !.cPaused = FALSE, !.cUnpaused = FALSE] ELSE ed
       IN /\ ed' = ed2
          /\ pend' = <<>>
          /\ UNCHANGED <<nd, pd, rv, bud>>
          /\ ev' = Event("EDSSpecWrite", EDSKey, 0, <<[Wr("update", "EDS", 0, "", "", 0, "spec") EXCEPT !.ok = same]>>,
                         [NoRes EXCEPT !.err = ~same, !.errKind = IF same THEN "" ELSE "conflict"], AbsOf(nd, pd, rv, ed2))

\* the spec write is rejected, or the process stops before issuing it: the pending write is lost (nothing is kept in memory)
RollbackFault ==
    /\ pend # <<>> /\ bud.fault > 0
    /\ pend' = <<>>
    /\ bud' = [bud EXCEPT !.fault = @ - 1]
    /\ UNCHANGED <<nd, pd, rv, ed>>
    /\ ev' = EnvEvent("ControllerFault", S)

Atomic(A) == A /\ UNCHANGED pend
Next == Atomic((pend = <<>> /\ EDSReconcile) \/ (\E i \in DOMAIN TmplSeq : ERSReconcile(i)) \/ Kubelet \/ Disturb \/ User \/ Tick)
NextCanary == Next \/ Atomic(CanaryUser)
NextNarrow == NextCanary \/ Atomic(Narrow)
NextFine   == NextCanary \/ RollbackBegin \/ RollbackFinish \/ RollbackFault

Spec       == Init /\ [][Next]_vars
SpecCanary == Init /\ [][NextCanary]_vars
SpecNarrow == Init /\ [][NextNarrow]_vars
SpecFine   == Init /\ [][NextFine]_vars

-----------------------------------------------------------------------------
(* the step formulas of Props.tla on every transition of the model *)

MStep(F(_, _)) == ev'.ev = "init" \/ F(S, ev')

M_C01 == [][MStep(C01_Step)]_vars
M_C03 == [][MStep(C03_Step)]_vars
M_C04 == [][MStep(C04_Step)]_vars
M_C05 == [][MStep(C05_Step)]_vars
M_C06 == [][MStep(C06_Step)]_vars
M_C07 == [][MStep(C07_Step)]_vars
M_C08 == [][MStep(C08_Step)]_vars
M_C09 == [][MStep(C09_Step)]_vars
M_C10 == [][MStep(C10_Step)]_vars
M_C12 == [][MStep(C12_Step)]_vars
M_C13 == [][MStep(C13_Step)]_vars
M_C14 == [][MStep(C14_EDS)]_vars /\ [][MStep(C14_ERS)]_vars
M_C15 == [][MStep(C15_Step)]_vars
\* the model's own reconciles are conformant by construction; checking it guards the glue (DoERS / EDSReconcile)
M_Conf == [][MStep(LAMBDA s, e : Conf_Applies(s, e) => Conf_Step(s, e))]_vars

I_C13m == C13_Inv(S)

\* design-level statement of C01's derived invariant: at most one live countable pod per node once no duplicate is injected
OnePerNode == \A n \in NodeIds : Cardinality({ k \in DOMAIN pd[n] : ~pd[n][k].term /\ pd[n][k].phase \notin {"Failed", "Unknown"} }) <= 1 + (EnvBudget - bud.env)

TypeOK == /\ \A n \in NodeIds : Len(pd[n]) <= MaxPerNode
          /\ bud.env >= 0 /\ bud.edit >= 0 /\ bud.ann >= 0 /\ bud.fault >= 0 /\ Len(pend) <= 1

\* C07 / C11, safety at the API-call grain: whatever happens between the two writes of a rollback, the active replica
\* set is never the failed one, and a half-done rollback is recognisable from the API objects alone (so that a fresh
\* controller instance redoes it)
I_Rollback == \A i \in DOMAIN TmplSeq : (rv[i].exists /\ rv[i].conds["CanaryFailed"].true /\ Strat.canary /\ ed.cValid # i) => ed.active # i
HalfDoneIsVisible == (pend = <<>> /\ ed.defaulted /\ ed.state = "Canary Failed" /\ ed.active > 0 /\ rv[ed.active].exists /\ ed.tmpl # rv[ed.active].tmpl /\ rv[TIdx(ed.tmpl)].exists
                        /\ rv[TIdx(ed.tmpl)].conds["CanaryFailed"].true) => ENABLED Atomic(EDSReconcile)

-----------------------------------------------------------------------------
(* liveness (design level).  Weak fairness of the reconcilers, of the kubelet's progress actions and of the clock;   *)
(* bounding is done by budgets inside the actions, not by a state constraint, so no constraint can hide a           *)
(* non-progress cycle.                                                                                              *)
Fair == /\ WF_vars(Atomic(pend = <<>> /\ EDSReconcile))
        /\ \A i \in DOMAIN TmplSeq : SF_vars(Atomic(ERSRec(i, TRUE)))   \* syncs keep coming (the frequency gate closes after each one,
                                                                                \* hence strong fairness) and the back-off eventually expires
        /\ \A n \in NodeIds : \A k \in 1..MaxPerNode : WF_vars(Atomic(KReady(n, k))) /\ WF_vars(Atomic(KFinish(n, k)))
        /\ WF_vars(Atomic(Tick))
LiveSpec       == Init /\ [][Next]_vars /\ Fair
LiveSpecCanary == Init /\ [][NextCanary]_vars /\ Fair
LiveSpecFine   == Init /\ [][NextFine]_vars /\ Fair /\ WF_vars(RollbackFinish)

\* the environment and the user are done, nothing is paused
Quiet == bud.env = 0 /\ bud.edit = 0 /\ bud.ann = 0 /\ ~ed.ruPaused /\ ~ed.frozen /\ ~ed.cPaused
ConvergedM == ed.defaulted /\ ed.active > 0 /\ \A d \in EDSs(S) : Converged(S, d)

\* C02: from every reachable state in which the disturbances are over, fair reconciliation converges - to the promoted
\* template, to the active one after a failure, or (canary paused by its own condition / not validated in manual mode)
\* to the canary fixpoint: canary nodes on the new template, every other node on the active one
L_C02 == Quiet ~> ConvergedM

\* C07: a failed canary is eventually rolled back: spec.template restored, status.canary cleared, active unchanged
CanaryFailedNow == \E i \in DOMAIN TmplSeq : rv[i].exists /\ rv[i].conds["CanaryFailed"].true /\ ed.tmpl = rv[i].tmpl /\ ed.active # i /\ ed.active > 0
RolledBack == ~ed.hasCanary /\ ed.active > 0 /\ rv[ed.active].exists /\ ed.tmpl = rv[ed.active].tmpl
L_C07 == (CanaryFailedNow /\ bud.edit = 0) ~> RolledBack
=============================================================================
