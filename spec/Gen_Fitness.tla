---------------------------- MODULE Gen_Fitness ----------------------------
(* Vector generator for C01 (binding B3, eligibility clause): nodes over two label keys and the taint effects, pods over
   node selectors, required node-affinity terms (OR of terms, AND of expressions, In / NotIn / Exists / DoesNotExist,
   matchFields on metadata.name, empty terms, empty term lists, preferred-only affinity) and tolerations (Exists / Equal,
   empty key, empty effect, wrong value, effect-specific).  The real scheduler.CheckNodeFitness answers every vector;
   Judge_Fitness.tla holds the reference. *)
EXTENDS Integers, Sequences, SequencesExt, FiniteSets, TLC, Json

CONSTANTS OutFile, MaxTerms

Vals == {"v1", "v2", ""}
Taint(e) == [key |-> "t1", value |-> "x", effect |-> e]
TaintSets == { <<>>, <<Taint("NoSchedule")>>, <<Taint("NoExecute")>>, <<Taint("PreferNoSchedule")>>, <<Taint("NoSchedule"), Taint("NoExecute")>> }
Nodes == { [name |-> "n1", labels |-> [k1 |-> a, k2 |-> b], taints |-> t] : a \in Vals, b \in Vals, t \in TaintSets }

Sels == { [k1 |-> "", k2 |-> ""], [k1 |-> "v1", k2 |-> ""], [k1 |-> "v2", k2 |-> ""], [k1 |-> "v1", k2 |-> "v1"] }

E(k, op, vs) == [key |-> k, op |-> op, values |-> vs]
ExprSets == { <<>>, <<E("k1", "In", <<"v1">>)>>, <<E("k1", "NotIn", <<"v1">>)>>, <<E("k2", "Exists", <<>>)>>, <<E("k2", "DoesNotExist", <<>>)>>,
              <<E("k1", "In", <<"v1", "v2">>), E("k2", "Exists", <<>>)>> }
FieldSets == { <<>>, <<E("metadata.name", "In", <<"n1">>)>>, <<E("metadata.name", "In", <<"n2">>)>>, <<E("metadata.name", "NotIn", <<"n1">>)>> }
Terms == { [exprs |-> x, fields |-> f] : x \in ExprSets, f \in FieldSets }
TermLists == UNION { [1..n -> Terms] : n \in 0..MaxTerms }
Affinities == { [kind |-> "none", terms |-> <<>>], [kind |-> "preferredOnly", terms |-> <<>>] } \cup { [kind |-> "required", terms |-> tl] : tl \in TermLists }

T(k, op, v, e) == [key |-> k, op |-> op, value |-> v, effect |-> e]
TolSets == { <<>>, <<T("t1", "Exists", "", "")>>, <<T("t1", "Equal", "x", "NoSchedule")>>, <<T("t1", "Equal", "y", "NoSchedule")>>,
             <<T("t1", "Exists", "", "NoExecute")>>, <<T("", "Exists", "", "")>>, <<T("t2", "Exists", "", "")>>,
             <<T("t1", "Equal", "x", "NoSchedule"), T("t1", "Exists", "", "NoExecute")>> }

Space == { [fn |-> "fitness", node |-> n, sel |-> s, affinity |-> a, tolerations |-> t] : n \in Nodes, s \in Sels, a \in Affinities, t \in TolSets }

ASSUME PrintT(<<"VECTORS", Cardinality(Space)>>)
ASSUME ndJsonSerialize(OutFile, SetToSeq(Space))
=============================================================================
