------------------------------- MODULE Multi -------------------------------
(***************************************************************************)
(* Two ExtendedDaemonSets on one set of nodes: the interleaving            *)
(* composition of two instances of Cluster.tla that share the variable nd  *)
(* (nodes) and nothing else.                                               *)
(*                                                                         *)
(* In the MODEL the two instances are independent by construction - an     *)
(* action of one leaves the pods, replica sets and status of the other     *)
(* unchanged.  That independence is exactly the statement of C12 for the   *)
(* CODE, where it is not by construction: both ExtendedDaemonSets live in  *)
(* one API server, are listed by label selectors and reconciled by the     *)
(* same controllers.  The use of this module is therefore binding B2:      *)
(* TLC simulates the composition, every behaviour is written as a label    *)
(* sequence ("A|<label>" / "B|<label>") and replayed into the real         *)
(* reconcilers with the two objects placed (a) in two namespaces under the *)
(* same name, (b) in one namespace under two names; the real trace is      *)
(* judged by the step formulas (C12_Step and the safety formulas of each   *)
(* object) and by the convergence tail.                                    *)
(*                                                                         *)
(* Time: a Tick of one instance ages only that instance (the other's       *)
(* reconciles are "late"); on the real side every Tick ages everything.    *)
(***************************************************************************)
EXTENDS Integers, Sequences, TLC

CONSTANTS NodeSeq, TmplSeq, InitFits, StratA, StratB, EnvBudget, EnvKinds, EditBudget, AnnBudget, MaxPerNode, AgeCap,
          FaultBudget, KnownFindings, Notes, Depth

VARIABLES nd,
          pdA, rvA, edA, budA, evA, pendA,
          pdB, rvB, edB, budB, evB, pendB,
          sched

A == INSTANCE Cluster WITH Strat <- StratA, pd <- pdA, rv <- rvA, ed <- edA, bud <- budA, ev <- evA, pend <- pendA
B == INSTANCE Cluster WITH Strat <- StratB, pd <- pdB, rv <- rvB, ed <- edB, bud <- budB, ev <- evB, pend <- pendB

avars == <<pdA, rvA, edA, budA, evA, pendA>>
bvars == <<pdB, rvB, edB, budB, evB, pendB>>
mvars == <<nd, avars, bvars, sched>>

MInit == A!Init /\ B!Init /\ sched = <<>>

MNext == \/ (A!NextCanary /\ UNCHANGED bvars /\ sched' = Append(sched, "A|" \o evA'.label))
         \/ (B!NextCanary /\ UNCHANGED avars /\ sched' = Append(sched, "B|" \o evB'.label))

MSpec == MInit /\ [][MNext]_mvars

\* printed once per simulated behaviour, when it reaches the requested depth
SchedPrint == IF Len(sched) = Depth THEN PrintT(<<"SCHED", sched>>) ELSE TRUE

\* by construction (see above); checked anyway so that a change to Cluster.tla that breaks the framing is noticed
Framing == [][(evA' # evA => UNCHANGED bvars) /\ (evB' # evB => UNCHANGED avars)]_mvars

IP(v, pct) == [v |-> v, pct |-> pct, set |-> TRUE, bad |-> FALSE]
MC_NodeSeq3 == <<"n1", "n2", "n3">>
MC_TmplSeq  == <<"A", "B">>
MC_InitFits3 == <<{"A", "B"}, {"A", "B"}, {"A", "B"}>>
MC_StratCanary == [maxUnavailable |-> IP(1, FALSE), maxSchedFailure |-> IP(0, FALSE), maxParallel |-> 250, slowStartInterval |-> 1,
             slowStartIncrease |-> IP(5, FALSE), frequency |-> 1, canary |-> TRUE, cReplicas |-> IP(1, FALSE),
             cDuration |-> 2, cNoRestarts |-> 1, cMode |-> "auto", cAntiAffinity |-> FALSE, cSelector |-> FALSE,
             apEnabled |-> TRUE, apMaxRestarts |-> 0, apMaxSlowStart |-> -1, afEnabled |-> TRUE, afMaxRestarts |-> 1,
             afMaxRestartsDur |-> -1, afTimeout |-> -1]
=============================================================================
