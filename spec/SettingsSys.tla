---------------------------- MODULE SettingsSys ----------------------------
(***************************************************************************)
(* System model of the ExtendedDaemonsetSetting controller                 *)
(* (controllers/extendeddaemonsetsetting) and of the way the replica-set   *)
(* sync attributes a setting to a node (getNodeList).                      *)
(*                                                                         *)
(* State: the settings of one namespace (present, reference, selected node *)
(* group, creation instant, status), the group label of every node and,    *)
(* as a history variable, whether a setting has been reconciled since the  *)
(* population or the labels last changed.  One action per reconcile of the *)
(* real code (it is one read of the settings + nodes and one status write),*)
(* the user/environment actions create, delete, relabel, tick.             *)
(*                                                                         *)
(* The statuses are deliberately NOT kept consistent by the actions: a     *)
(* setting created later does not re-reconcile the earlier ones (the real  *)
(* controller only watches its own object), so two overlapping settings    *)
(* can both read "valid" until the older one is reconciled again.  C18 is  *)
(* therefore stated, as in properties.jsonl, for the states in which every *)
(* setting has been reconciled against the current state (AllFresh).       *)
(*                                                                         *)
(* The abstract state handed to Props!C18_Step and Conf!Conf_Setting is    *)
(* the same record the harness projects (fields of sim.SettingS / NodeS).  *)
(***************************************************************************)
EXTENDS Conf

CONSTANTS SetSeq,       \* setting names, e.g. <<"s1", "s2", "s3">>
          SNodeSeq,     \* node names
          GroupSet,     \* node groups, e.g. {"g1", "g2"}
          SOpBudget,    \* create / delete / relabel operations
          ClockMax      \* creation instants 0..ClockMax

VARIABLES set, grp, fresh, sclock, sbud, sev

svars == <<set, grp, fresh, sclock, sbud, sev>>

SNames == SeqToSet(SetSeq)
SNodes == SeqToSet(SNodeSeq)
Refs   == {"foo", ""}             \* reference present / missing
\* a selector names one group, or both groups of Both (partial overlaps), or is unusable ("": the projection of an invalid operator)
CONSTANT Both                       \* e.g. <<"g1", "g2">>, or <<>> for no two-group selector
BothName == IF Both = <<>> THEN "" ELSE Both[1] \o "+" \o Both[2]
Sels   == GroupSet \cup {""} \cup (IF Both = <<>> THEN {} ELSE {BothName})
SelSeq(g) == IF g = "" THEN <<>> ELSE IF g = BothName THEN Both ELSE <<g>>

NoSetting == [present |-> FALSE, ref |-> "", sel |-> "", born |-> 0, status |-> "", err |-> ""]

\* ---- abstract state (projection) ----
AbsS(sets, groups, clk) ==
    LET pres == SelectSeq(SetSeq, LAMBDA x : sets[x].present) IN
    [ now |-> clk,
      nodes |-> [k \in DOMAIN SNodeSeq |-> [name |-> SNodeSeq[k], fits |-> <<>>, slabel |-> groups[SNodeSeq[k]]]],
      settings |-> [k \in DOMAIN pres |-> [ns |-> "ns1", name |-> pres[k], ref |-> sets[pres[k]].ref, sel |-> sets[pres[k]].sel, sels |-> SelSeq(sets[pres[k]].sel), res |-> "r1",
                                           age |-> clk - sets[pres[k]].born, born |-> sets[pres[k]].born,
                                           status |-> sets[pres[k]].status, err |-> sets[pres[k]].err]],
      pods |-> <<>>, rs |-> <<>>, eds |-> <<>>, ptmpl |-> <<>> ]
SS == sev.state

SEvent(name, key, label, post) == [ev |-> name, key |-> key, label |-> label, writes |-> <<>>, state |-> post,
                                   res |-> [requeue |-> FALSE, after |-> 0, err |-> FALSE, errMsg |-> "", errKind |-> "", panic |-> FALSE, nErrs |-> 0],
                                   args |-> [_ |-> ""]]

RECURSIVE JoinGroups(_, _)
JoinGroups(g, k) == IF k > Len(SNodeSeq) THEN "" ELSE ":" \o SNodeSeq[k] \o "=" \o g[SNodeSeq[k]] \o JoinGroups(g, k + 1)
InitLabel(g) == "Init" \o JoinGroups(g, 1)

SInit ==
    /\ set = [x \in SNames |-> NoSetting]
    /\ grp \in [SNodes -> GroupSet \cup {""}]
    /\ fresh = [x \in SNames |-> FALSE]
    /\ sclock = 0
    /\ sbud = SOpBudget
    /\ sev = SEvent("init", "", InitLabel(grp), AbsS(set, grp, 0))

Stale == [x \in SNames |-> FALSE]

SCreate(x, r, g) ==
    /\ ~set[x].present /\ sbud > 0
    /\ set' = [set EXCEPT ![x] = [present |-> TRUE, ref |-> r, sel |-> g, born |-> sclock, status |-> "", err |-> ""]]
    /\ fresh' = Stale /\ sbud' = sbud - 1
    /\ UNCHANGED <<grp, sclock>>
    /\ sev' = SEvent("CreateSetting", "ns1/" \o x, "CreateSetting:" \o x \o ":" \o r \o ":" \o g, AbsS(set', grp, sclock))

SDelete(x) ==
    /\ set[x].present /\ sbud > 0
    /\ set' = [set EXCEPT ![x] = NoSetting]
    /\ fresh' = Stale /\ sbud' = sbud - 1
    /\ UNCHANGED <<grp, sclock>>
    /\ sev' = SEvent("DeleteSetting", "ns1/" \o x, "DeleteSetting:" \o x, AbsS(set', grp, sclock))

SRelabel(n, g) ==
    /\ grp[n] # g /\ sbud > 0
    /\ grp' = [grp EXCEPT ![n] = g]
    /\ fresh' = Stale /\ sbud' = sbud - 1
    /\ UNCHANGED <<set, sclock>>
    /\ sev' = SEvent("NodeGroup", "", "NodeGroup:" \o n \o ":" \o g, AbsS(set, grp', sclock))

STick ==
    /\ sclock < ClockMax
    /\ sclock' = sclock + 1
    /\ UNCHANGED <<set, grp, fresh, sbud>>
    /\ sev' = SEvent("Tick", "", "Tick", AbsS(set, grp, sclock'))

\* the reconcile: Ctrl-level decision SettingVerdict (Conf.tla) on the state it reads
SReconcile(x) ==
    /\ set[x].present
    /\ LET s == AbsS(set, grp, sclock)
           v == SettingVerdict(s, CHOOSE y \in SeqToSet(s.settings) : y.name = x)
       IN set' = [set EXCEPT ![x].status = v[1], ![x].err = v[2]]
    /\ fresh' = [fresh EXCEPT ![x] = TRUE]
    /\ UNCHANGED <<grp, sclock, sbud>>
    /\ sev' = SEvent("SettingReconcile", "ns1/" \o x, "SettingReconcile:" \o x, AbsS(set', grp, sclock))

\* a replica-set sync of the ExtendedDaemonSet the settings refer to: it reads the settings (only valid ones count, first match per
\* node) and creates / replaces pods accordingly; it changes nothing in this model's state.  It is an action so that simulated
\* schedules interleave it with stale and fresh statuses; what the real sync does is judged by C10_Step on the recorded step.
SSync ==
    /\ UNCHANGED <<set, grp, fresh, sclock, sbud>>
    /\ sev.ev # "ERSReconcile"
    /\ sev' = SEvent("ERSReconcile", "ns1/foo", "ERSReconcile:1", AbsS(set, grp, sclock))

AllFresh == \A x \in SNames : set[x].present => fresh[x]

\* the observation point of C18: every setting reconciled against the current state
SMark ==
    /\ AllFresh /\ sev.ev # "SettingsDone"
    /\ UNCHANGED <<set, grp, fresh, sclock, sbud>>
    /\ sev' = SEvent("SettingsDone", "", "SettingsDone", AbsS(set, grp, sclock))

SNext ==
    \/ \E x \in SNames : \/ \E r \in Refs : \E g \in Sels : SCreate(x, r, g)
                         \/ SDelete(x)
                         \/ SReconcile(x)
    \/ \E n \in SNodes : \E g \in GroupSet \cup {""} : SRelabel(n, g)
    \/ STick
    \/ SMark
    \/ SSync

SSpec == SInit /\ [][SNext]_svars
SFair == \A x \in SNames : WF_svars(SReconcile(x))
SLiveSpec == SSpec /\ SFair

sview == <<set, grp, fresh, sclock, sbud, sev.ev = "SettingsDone", sev.ev = "ERSReconcile">>

-----------------------------------------------------------------------------
\* ---- properties ----
SM_C18  == [][C18_Step(SS, sev')]_svars
SM_Conf == [][(sev'.ev = "SettingReconcile") => Conf_Setting(SS, sev')]_svars

\* what the replica-set sync attributes to a node: the first valid matching setting of the listed ones that reference the EDS
SSelects(x, n) == grp[n] \in SeqToSet(SelSeq(set[x].sel))
SAttr(n) == { x \in SNames : set[x].present /\ set[x].ref = "foo" /\ set[x].status = "valid" /\ SSelects(x, n) }

\* C18 as a state invariant of the model: whenever every setting is fresh, a node is selected by at most one valid setting
SI_C18 == AllFresh => \A n \in SNodes : Cardinality(SAttr(n)) <= 1
\* ... and a fresh, well-formed setting that overlaps no other is valid (no starvation by errored neighbours)
SI_Valid == AllFresh => \A x \in SNames :
              (set[x].present /\ set[x].ref # "" /\ set[x].sel # "" /\
               ~\E y \in SNames \ {x} : set[y].present /\ \E n \in SNodes : SSelects(x, n) /\ SSelects(y, n)) => set[x].status = "valid"
\* the stale window exists (documented deviation from "at most one valid at all times"): this is NOT an invariant
SI_NeverTwo == \A n \in SNodes : Cardinality(SAttr(n)) <= 1

STypeOK == /\ \A x \in SNames : set[x].status \in {"", "valid", "error"} /\ set[x].born \in 0..ClockMax
           /\ sbud \in 0..SOpBudget

\* liveness: with every reconciler fair and no further operation, every setting eventually carries a verdict that is stable
SL_Settle == (sbud = 0) ~> AllFresh

MC_SetSeq == <<"s1", "s2", "s3">>
MC_Both == <<"g1", "g2">>
MC_NoBoth == <<>>
MC_SetSeq2 == <<"s1", "s2">>
MC_SNodeSeq == <<"n1", "n2">>
MC_SNodeSeq3 == <<"n1", "n2", "n3">>
=============================================================================
