---------------------------- MODULE Gen_Settings ----------------------------
(***************************************************************************)
(* C18: reference transcription of the ExtendedDaemonsetSetting reconciler *)
(* (searchPossibleConflict), the exhaustive design check that the          *)
(* reference gives at most one valid setting per node for every bounded    *)
(* population, and the vector generator (binding B3): every population of  *)
(* up to MaxSettings settings over {reference present / absent} x          *)
(* {selects g1, g2, unusable selector} x {creation time 1, 2 (ties)} on    *)
(* three labelled nodes, reconciled in the listed orders by the real       *)
(* reconciler; then one real replica-set sync creates the pods (only a     *)
(* valid setting may influence them: C10_Step).                            *)
(***************************************************************************)
EXTENDS Integers, Sequences, SequencesExt, FiniteSets, TLC, Json

CONSTANTS OutFile, MaxSettings, AllOrders

Min2(a, b) == IF a <= b THEN a ELSE b
Types == { [ref |-> r, sel |-> g, age |-> a] : r \in {"foo", "other", ""}, g \in {"g1", "g2", "g1+g2", "!bad"}, a \in {1, 2} }
\* all populations up to two settings; of three settings: all (Full) or those in which every setting selects g1 (maximal overlap)
CONSTANT Full
Populations == UNION { [1..n -> Types] : n \in 1..Min2(MaxSettings, 2) } \cup
               (IF MaxSettings < 3 THEN {} ELSE IF Full THEN [1..3 -> { t \in Types : t.ref # "other" }] ELSE [1..3 -> { t \in Types : t.sel \in {"g1", "g1+g2"} /\ t.ref # "other" }])

NodeGroups == [n1 |-> "g1", n2 |-> "g2", n3 |-> ""]
NodeNames == {"n1", "n2", "n3"}

SName(i) == "s" \o ToString(i)
ResOf(i) == "r" \o ToString(i)

\* ---- reference: controllers/extendeddaemonsetsetting ----
SelGroups(sel) == CASE sel = "g1" -> {"g1"} [] sel = "g2" -> {"g2"} [] sel = "g1+g2" -> {"g1", "g2"} [] OTHER -> {}
Matches(t, n) == NodeGroups[n] \in SelGroups(t.sel)
\* sort: newest first (smaller age), ties by name descending
Before(pop, i, j) == pop[i].age < pop[j].age \/ (pop[i].age = pop[j].age /\ i > j)
AnyBad(pop) == \E i \in DOMAIN pop : pop[i].sel = "!bad"
RefStatus(pop, i) ==
    IF pop[i].ref = "" THEN "error"
    ELSE IF pop[i].sel = "!bad" THEN "error"   \* its own unusable selector (another setting's unusable selector selects no node)
    ELSE IF \E n \in NodeNames : Matches(pop[i], n) /\ \E j \in DOMAIN pop : j # i /\ Matches(pop[j], n) /\ Before(pop, j, i) THEN "error"
    ELSE "valid"

\* ---- design check on the reference, all populations ----
AtMostOneValid(pop) == \A n \in NodeNames : Cardinality({ i \in DOMAIN pop : RefStatus(pop, i) = "valid" /\ Matches(pop[i], n) }) <= 1
ASSUME \A pop \in Populations : AtMostOneValid(pop)

Orders(n) == IF AllOrders THEN { p \in [1..n -> 1..n] : \A a, b \in 1..n : a # b => p[a] # p[b] }
             ELSE { [k \in 1..n |-> k], [k \in 1..n |-> n + 1 - k] }

Strategy == [MaxUnavailable |-> "1", MaxSchedFailure |-> "0", MaxParallel |-> 250, SlowStartInterval |-> 1, SlowStartIncrease |-> "5", Frequency |-> 1, Canary |-> FALSE]

Vec(pop, ord) ==
    [label |-> "settings", affinity |-> FALSE, reps |-> 1, strategy |-> Strategy,
     nodes |-> << [name |-> "n1", fits |-> "A,B", csel |-> TRUE, zone |-> "z1", taint |-> FALSE, override |-> "none", group |-> "g1"],
                  [name |-> "n2", fits |-> "A,B", csel |-> TRUE, zone |-> "z1", taint |-> FALSE, override |-> "none", group |-> "g2"],
                  [name |-> "n3", fits |-> "A,B", csel |-> TRUE, zone |-> "z1", taint |-> FALSE, override |-> "none", group |-> ""] >>,
     eds |-> [tmpl |-> "A", ruPaused |-> FALSE, frozen |-> FALSE, cPaused |-> "", cUnpaused |-> "", cValid |-> "", active |-> "A", canary |-> "",
              cNodes |-> <<>>, desired |-> 3, state |-> "Running"],
     rs |-> << [tmpl |-> "A", age |-> 6, status |-> "active", counters |-> <<3, 0, 0, 0>>,
                conds |-> << [type |-> "Active", true |-> TRUE, ltt |-> 5, lut |-> 5], [type |-> "LastFullSync", true |-> TRUE, ltt |-> 6, lut |-> 2] >>] >>,
     pods |-> <<>>,
     settings |-> [i \in DOMAIN pop |-> [name |-> SName(i), ref |-> pop[i].ref, sel |-> pop[i].sel, res |-> ResOf(i), age |-> pop[i].age, expr |-> (i = 2)]],
     steps |-> [k \in DOMAIN ord |-> [op |-> "SettingReconcile", key |-> "ns1/" \o SName(ord[k])]] \o
               << [op |-> "Mark", v |-> "SettingsDone"], [op |-> "ERSReconcile", t |-> "A"] >>]

Space == UNION { { Vec(pop, ord) : ord \in Orders(Len(pop)) } : pop \in Populations }

ASSUME PrintT(<<"VECTORS", Cardinality(Space)>>)
ASSUME ndJsonSerialize(OutFile, SetToSeq(Space))
=============================================================================
