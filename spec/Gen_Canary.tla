----------------------------- MODULE Gen_Canary -----------------------------
(***************************************************************************)
(* Vector generator for C06 (binding B3): canary replica-set states -      *)
(* vectors of zero to two canary pods with restart counts at, just below   *)
(* and just above both thresholds, waiting reasons inside / outside the    *)
(* cannot-start set, start time before / after maxSlowStartDuration,       *)
(* every autoPause / autoFail enabled combination, previous Canary-Paused /*)
(* Canary-Failed / PodRestarting / Canary conditions and ages, pause and   *)
(* unpause annotations.  One real sync of the canary replica set per       *)
(* vector; Trace.tla judges it with C06_Step (reference: Ctrl!Can).        *)
(***************************************************************************)
EXTENDS Integers, Sequences, SequencesExt, FiniteSets, TLC, Json

CONSTANTS OutFile, Full

Kinds == <<"none", "ok", "r2", "r3", "r5", "r6", "imgYoung", "imgOld", "creatingOld", "crashloop", "term", "old">>
KindsB == {2, 4, 6, 1, 8}   \* ok r3 r6 none imgOld

Pairs(S) == { <<a, b>> : a \in S, b \in S }  \* ordered: the loop over pods is order sensitive
UPairs(S) == { p \in Pairs(S) : p[1] <= p[2] }

PodFor(k, node) ==
    LET base == [node |-> node, tmpl |-> "B", rs |-> "B", phase |-> "Running", ready |-> TRUE, term |-> FALSE, stuck |-> FALSE,
                 unsched |-> FALSE, restarts |-> 0, restartAge |-> -1, waiting |-> "", startAge |-> 4, clabel |-> TRUE, age |-> 4, res |-> ""]
        R(n) == [base EXCEPT !.restarts = n, !.restartAge = 1, !.ready = FALSE]
    IN CASE Kinds[k] = "ok"   -> <<base>>
         [] Kinds[k] = "r2"   -> <<R(2)>>
         [] Kinds[k] = "r3"   -> <<R(3)>>
         [] Kinds[k] = "r5"   -> <<R(5)>>
         [] Kinds[k] = "r6"   -> <<R(6)>>
         [] Kinds[k] = "imgYoung" -> <<[base EXCEPT !.waiting = "ErrImagePull", !.ready = FALSE, !.startAge = 1, !.phase = "Pending"]>>
         [] Kinds[k] = "imgOld"   -> <<[base EXCEPT !.waiting = "ImagePullBackOff", !.ready = FALSE, !.startAge = 4, !.phase = "Pending"]>>
         [] Kinds[k] = "creatingOld" -> <<[base EXCEPT !.waiting = "ContainerCreating", !.ready = FALSE, !.startAge = 4, !.phase = "Pending"]>>
         [] Kinds[k] = "crashloop" -> <<[base EXCEPT !.waiting = "CrashLoopBackOff", !.ready = FALSE, !.restarts = 1, !.restartAge = 1]>>
         [] Kinds[k] = "term" -> <<[base EXCEPT !.term = TRUE]>>
         [] Kinds[k] = "old"  -> <<[base EXCEPT !.tmpl = "A", !.rs = "A", !.clabel = FALSE]>>
         [] OTHER -> <<>>

Strategy(ap, af, ss, rd, to) ==
    [MaxUnavailable |-> "1", MaxSchedFailure |-> "0", MaxParallel |-> 250, SlowStartInterval |-> 1, SlowStartIncrease |-> "5", Frequency |-> 1,
     Canary |-> TRUE, CReplicas |-> "2", CDuration |-> 20, CNoRestarts |-> 2, CMode |-> "auto",
     APEnabled |-> ap, APMaxRestarts |-> 2, APMaxSlowStart |-> ss, AFEnabled |-> af, AFMaxRestarts |-> 5, AFMaxRestartsDur |-> rd, AFTimeout |-> to]

Conds(paused0, failed0, restarting, canaryAge) ==
    (IF canaryAge >= 0 THEN << [type |-> "Canary", true |-> TRUE, ltt |-> canaryAge, lut |-> canaryAge] >> ELSE <<>>) \o
    (IF paused0 THEN << [type |-> "Canary-Paused", true |-> TRUE, ltt |-> 2, lut |-> 1] >> ELSE <<>>) \o
    (IF failed0 THEN << [type |-> "Canary-Failed", true |-> TRUE, ltt |-> 2, lut |-> 1] >> ELSE <<>>) \o
    (IF restarting[1] >= 0 THEN << [type |-> "PodRestarting", true |-> TRUE, ltt |-> restarting[1], lut |-> restarting[2]] >> ELSE <<>>) \o
    << [type |-> "LastFullSync", true |-> TRUE, ltt |-> 6, lut |-> 2] >>

Vec(pair, strat, conds, cp, cu) ==
    [label |-> "canary-eval", affinity |-> FALSE, reps |-> 1, strategy |-> strat,
     nodes |-> [i \in 1..3 |-> [name |-> "n" \o ToString(i), fits |-> "A,B", csel |-> TRUE, zone |-> "z1", taint |-> FALSE, override |-> "none", group |-> ""]],
     eds |-> [tmpl |-> "B", ruPaused |-> FALSE, frozen |-> FALSE, cPaused |-> cp, cUnpaused |-> cu, cValid |-> "", active |-> "A",
              canary |-> "B", cNodes |-> <<"n1", "n2">>, desired |-> 3, state |-> "Canary"],
     rs |-> << [tmpl |-> "A", age |-> 12, status |-> "active", counters |-> <<1, 1, 1, 1>>,
                conds |-> << [type |-> "Active", true |-> TRUE, ltt |-> 10, lut |-> 10], [type |-> "LastFullSync", true |-> TRUE, ltt |-> 9, lut |-> 2] >>],
               [tmpl |-> "B", age |-> 6, status |-> "canary", counters |-> <<2, 0, 0, 0>>, conds |-> conds] >>,
     pods |-> PodFor(pair[1], "n1") \o PodFor(pair[2], "n2") \o
              << [node |-> "n3", tmpl |-> "A", rs |-> "A", phase |-> "Running", ready |-> TRUE, term |-> FALSE, stuck |-> FALSE, unsched |-> FALSE,
                  restarts |-> 0, restartAge |-> -1, waiting |-> "", startAge |-> 9, clabel |-> FALSE, age |-> 9, res |-> ""] >>,
     steps |-> << [op |-> "ERSReconcile", t |-> "B"] >>]

BlockA == { Vec(p, Strategy(ap, af, ss, rd, to), Conds(FALSE, FALSE, <<5, 1>>, ca), "", "") :
              p \in (IF Full THEN Pairs(DOMAIN Kinds) ELSE UPairs(DOMAIN Kinds)), ap \in BOOLEAN, af \in BOOLEAN, ss \in {0, 2}, rd \in {0, 2}, to \in {0, 8},
              ca \in {3, 10} }

BlockB == { Vec(p, Strategy(TRUE, TRUE, 0, 2, to), Conds(p0, f0, rst, ca), cp, cu) :
              p \in (IF Full THEN Pairs(KindsB) ELSE UPairs(KindsB)), p0 \in BOOLEAN, f0 \in BOOLEAN, rst \in {<<-1, -1>>, <<5, 1>>, <<3, 2>>},
              ca \in {-1, 3, 10}, cp \in {"", "true"}, cu \in {"", "true"}, to \in {0, 8} }

Space == BlockA \cup BlockB

ASSUME PrintT(<<"VECTORS", Cardinality(Space)>>)
ASSUME ndJsonSerialize(OutFile, SetToSeq(Space))
=============================================================================
