------------------------------- MODULE Abs -------------------------------
(***************************************************************************)
(* Vocabulary over the abstract state of an extendeddaemonset cluster.     *)
(* A state `s' is the record the harness projects from the real store      *)
(* (harness/sim/types.go) and, equally, the record the system model        *)
(* Cluster.tla builds from its variables.  Everything here is an operator  *)
(* over such records, so the same definitions serve                        *)
(*   - the property formulas (Props.tla),                                  *)
(*   - the trace specification (Trace.tla), and                            *)
(*   - the system model (Cluster.tla).                                     *)
(***************************************************************************)
EXTENDS Integers, Sequences, FiniteSets

SeqToSet(q) == { q[i] : i \in DOMAIN q }

Max2(a, b) == IF a >= b THEN a ELSE b
Min2(a, b) == IF a <= b THEN a ELSE b

\* GetValueFromIntOrPercent(v, total, roundUp = true)
Resolve(ip, total) == IF ip.pct THEN (ip.v * total + 99) \div 100 ELSE ip.v

Nodes(s)     == SeqToSet(s.nodes)
NodeNames(s) == { n.name : n \in Nodes(s) }
HasNode(s, name) == \E n \in Nodes(s) : n.name = name
NodeOf(s, name)  == CHOOSE n \in Nodes(s) : n.name = name
Fits(s, name, t) == HasNode(s, name) /\ t \in SeqToSet(NodeOf(s, name).fits)

Pods(s)      == SeqToSet(s.pods)
HasPod(s, id) == \E p \in Pods(s) : p.id = id
PodOf(s, id)  == CHOOSE p \in Pods(s) : p.id = id

RSs(s)       == SeqToSet(s.rs)
HasRS(s, id) == \E r \in RSs(s) : r.id = id
RSOf(s, id)  == CHOOSE r \in RSs(s) : r.id = id

EDSs(s)      == SeqToSet(s.eds)
HasEDS(s, k) == \E d \in EDSs(s) : d.key = k
EDSOf(s, k)  == CHOOSE d \in EDSs(s) : d.key = k

\* Replica sets that belong to EDS d: owned by it (controller reference) in its namespace.
OwnRS(s, d)  == { r \in RSs(s) : r.owner = d.key }
\* What the EDS reconcile lists: by name label (the namespace is part of the statement of C12).
UpToDateRS(s, d) == { r \in OwnRS(s, d) : r.hashAnn = d.tmpl }

\* Pods of EDS d: its namespace and its name label; during a declared migration also the pods owned by
\* the old DaemonSet in the same namespace.
OwnPods(s, d) == { p \in Pods(s) : p.ns = d.ns /\
                     (p.eds = d.name \/ (d.oldDS # "" /\ p.owner = "ds" /\ p.ownerName = d.oldDS)) }

\* Role of replica set r as the ERS reconcile derives it from the owner's status.
Role(d, r) == IF d.activeName = "" THEN "unknown"
              ELSE IF d.activeName = r.name THEN "active"
              ELSE IF d.hasCanary /\ d.canaryRS = r.id /\ d.strat.canary THEN "canary"   \* (no canary strategy: no canary to manage)
              ELSE "unknown"

CNodes(d) == IF d.hasCanary THEN SeqToSet(d.cNodes) ELSE {}

\* Pods that take part in the per-node bookkeeping (phase Unknown is skipped by the controller).
Countable(p) == p.phase # "Unknown" /\ p.phase # "Failed"

PodsOn(s, d, n) == { p \in OwnPods(s, d) : p.node = n }

\* The pod the controller keeps for a node: scheduled before unscheduled, then oldest.  Ties in the
\* creation instant are broken by name in the code; Kept is therefore a set (all candidates).
Older(p, q) == (p.sched /\ ~q.sched) \/ (p.sched = q.sched /\ p.born < q.born)
KeptCandidates(S) == { p \in S : \A q \in S : ~Older(q, p) }

\* nodes the replica set r of EDS d targets in role `role': the active one every fit node but the canary nodes, the
\* canary one the fit canary nodes
Targeted(s, d, r, role) ==
    { n \in NodeNames(s) : Fits(s, n, r.tmpl) /\ (role = "active" => n \notin CNodes(d)) /\ (role = "canary" => n \in CNodes(d)) }

\* an ExtendedDaemonsetSetting selects the nodes whose group label is one of the groups it names (x.sels; "" / <<>> = unusable selector)
SetMatches(s, x, n) == x.sel # "" /\ HasNode(s, n) /\ NodeOf(s, n).slabel \in SeqToSet(x.sels)

Available(p) == p.ready
=============================================================================
