"""Per-property plan: which trace formulas, function-level (B3) pipelines and model configurations decide it."""

# trace formulas (Trace.tla) evaluated on real-code traces, per property
TRACE = {
    "C01": (["P_C01"], []),
    "C02": (["P_C02"], []),
    "C03": (["P_C03"], []),
    "C04": (["P_C04"], []),
    "C05": (["P_C05"], []),
    "C07": (["P_C07"], []),
    "C08": (["P_C08"], []),
    "C09": (["P_C09", "P_C09s"], []),
    "C10": (["P_C10"], []),
    "C12": (["P_C12"], []),
    "C13": (["P_C13"], ["I_C13"]),
    "C14": (["P_C14"], []),
    "C15": (["P_C15"], []),
    "C16": (["P_C16"], []),
    "C17": (["P_C17"], []),
}

# walks / steps per tier
TIERS = {
    "quick": {"walks": 40, "steps": 150},
    "thorough": {"walks": 600, "steps": 220},
}

RULES = {
    "default": "cases = recorded steps of the real reconcilers (scenario corpus + seeded random walks over the action vocabulary, each followed by a convergence tail); a case is non-trivial when the antecedent of one of the property's step formulas held on it; distinct = distinct NT tuples printed by TLC (formula clause + the abstract quantities it decided on)",
}
