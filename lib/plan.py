"""Per-property plan: which trace formulas, function-level (B3) pipelines and model configurations decide it."""

# trace formulas (Trace.tla) evaluated on real-code traces, per property
TRACE = {
    "C01": (["P_C01"], []),
    "C02": (["P_C02"], []),
    "C03": (["P_C03"], []),
    "C04": (["P_C04"], []),
    "C05": (["P_C05"], []),
    "C06": (["P_C06"], []),
    "C07": (["P_C07"], []),
    "C08": (["P_C08", "P_C05"], []),  # "while a canary is paused ... elapsed time does not promote it" is the promotion rule
    "C09": (["P_C09", "P_C09s"], []),
    "C10": (["P_C10"], []),
    "C12": (["P_C12"], []),
    "C13": (["P_C13"], ["I_C13"]),
    "C14": (["P_C14"], []),
    "C15": (["P_C15"], []),
    "C16": (["P_C16"], []),
    "C17": (["P_C17"], []),
    "C11": ([], []),
    "C18": (["P_C18", "P_C10"], []),
    "C19": (["P_C19"], []),
}

# walks / steps per tier
TIERS = {
    "quick": {"walks": 40, "steps": 150},
    "thorough": {"walks": 600, "steps": 220},
}

# ---- design pass: bounded configurations of Cluster.tla (module, SPECIFICATION, constants) ----
ALL_KINDS = '{"unready", "fail", "restart", "dup", "node"}'

def mc(module, spec, nodes="MC_NodeSeq", fits="MC_InitFits", strat="MC_Strat", env=0, edit=1, ann=1, agecap=1, per_node=3, tmpls="MC_TmplSeq", kinds=ALL_KINDS, fault=0, oldds=False):
    return dict(module=module, spec=spec, nodes=nodes, fits=fits, strat=strat, env=env, edit=edit, ann=ann, agecap=agecap, per_node=per_node, tmpls=tmpls, kinds=kinds, fault=fault, oldds=oldds)

MC_CONFIGS = {
    # name: (config, expected wall time quick machine)
    "rollout_q": mc("MC_rollout", "Spec", env=0, edit=1, ann=1),
    "rollout_t": mc("MC_rollout", "Spec", env=1, edit=1, ann=0),       # 913 k distinct states, 2.5 min
    "rollout_t2": mc("MC_rollout", "Spec", env=0, edit=2, ann=1),
    "rollout_mu2_t": mc("MC_rollout", "Spec", strat="MC_Strat2", env=1, edit=1, ann=0),
    "rollout_pct_q": mc("MC_rollout", "Spec", strat="MC_StratPct", env=0, edit=1, ann=0),
    "canary_q": mc("MC_canary", "SpecCanary", env=0, edit=1, ann=1, agecap=2),
    "canary_t": mc("MC_canary", "SpecCanary", env=1, edit=1, ann=0, agecap=2),   # 599 k distinct states, 2 min
    "canary_t2": mc("MC_canary", "SpecCanary", env=0, edit=1, ann=2, agecap=2),
    "canary_fail_q": mc("MC_canary", "SpecCanary", strat="MC_StratFailFast", env=1, edit=1, ann=0, agecap=2, kinds='{"restart"}'),
    "canary_fail_t": mc("MC_canary", "SpecCanary", strat="MC_StratFailFast", env=1, edit=1, ann=1, agecap=2, kinds='{"restart"}'),   # ({restart, fail}: 5.96 M states, 18 min; with "unready" 6.3 M)
    "fine_q": mc("MC_canary", "SpecFine", strat="MC_StratFailFast", env=1, edit=1, ann=0, agecap=2, kinds='{"restart"}', fault=1),
    "fine_t": mc("MC_canary", "SpecFine", strat="MC_StratFailFast", env=1, edit=1, ann=1, agecap=2, kinds='{"restart"}', fault=2),   # (edit=2, {restart, fail}: > 12 M states, not finished in 40 min)
    "canary_narrow_t": mc("MC_canary", "SpecCanary", env=1, edit=1, ann=0, agecap=2, kinds='{"narrow", "lost"}'),
    "rollout_lost_t": mc("MC_rollout", "Spec", env=1, edit=1, ann=0, kinds='{"lost", "fail", "dup"}'),
    # migration from a DaemonSet: every node starts with a ready pod of the old DaemonSet (OldDS <- MC_OldDS)
    "rollout_migr_q": mc("MC_rollout", "Spec", env=0, edit=1, ann=1, oldds=True),
    "rollout_migr_t": mc("MC_rollout", "Spec", env=1, edit=1, ann=0, kinds='{"unready", "fail"}', oldds=True),   # (MC_Strat2 + all kinds: 5.2 M states, 23 min)
    "canary_manual_q": mc("MC_canary", "SpecCanary", strat="MC_StratManual", env=0, edit=1, ann=1, agecap=1),
}

def raw(module, spec, constants, view):
    return dict(module=module, spec=spec, raw=constants, view=view)

# SettingsSys.tla: the ExtendedDaemonsetSetting controller (settings x nodes x groups, operation budget, creation instants)
MC_CONFIGS["settings_q"] = raw("SettingsSys", "SSpec", '  SetSeq <- MC_SetSeq2\n  SNodeSeq <- MC_SNodeSeq\n  GroupSet = {"g1", "g2"}\n  Both <- MC_Both\n  SOpBudget = 4\n  ClockMax = 1\n', "sview")
MC_CONFIGS["settings_t"] = raw("SettingsSys", "SSpec", '  SetSeq <- MC_SetSeq\n  SNodeSeq <- MC_SNodeSeq\n  GroupSet = {"g1", "g2"}\n  Both <- MC_Both\n  SOpBudget = 4\n  ClockMax = 2\n', "sview")
MC_CONFIGS["settings_live_q"] = raw("SettingsSys", "SLiveSpec", '  SetSeq <- MC_SetSeq2\n  SNodeSeq <- MC_SNodeSeq\n  GroupSet = {"g1", "g2"}\n  Both <- MC_Both\n  SOpBudget = 3\n  ClockMax = 1\n', "sview")

# liveness (design level): (config, SPECIFICATION, temporal property)
LIVE_CONFIGS = {
    "live_rollout_q": (mc("MC_rollout", "LiveSpec", env=0, edit=1, ann=0), "L_C02"),
    "live_rollout_t": (mc("MC_rollout", "LiveSpec", nodes="MC_NodeSeq2", fits="MC_InitFits2", env=1, edit=1, ann=0, kinds='{"fail", "dup", "unready", "node"}'), "L_C02"),
    "live_canary_q": (mc("MC_canary", "LiveSpecCanary", env=0, edit=1, ann=0, agecap=2), "L_C02"),
    "live_canary_t": (mc("MC_canary", "LiveSpecCanary", env=1, edit=1, ann=0, agecap=2, kinds='{"restart", "fail"}'), "L_C02"),
    "live_fine_q": (mc("MC_canary", "LiveSpecFine", strat="MC_StratFailFast", env=1, edit=1, ann=0, agecap=2, kinds='{"restart"}', fault=1), "L_C07"),
    "live_c07_q": (mc("MC_canary", "LiveSpecCanary", strat="MC_StratFailFast", env=1, edit=1, ann=0, agecap=2, kinds='{"restart"}'), "L_C07"),
    "live_c07_t": (mc("MC_canary", "LiveSpecCanary", strat="MC_StratFailFast", env=1, edit=1, ann=1, agecap=2, kinds='{"restart", "fail"}'), "L_C07"),
}
LIVE_CONFIGS["settings_live_q"] = (MC_CONFIGS["settings_live_q"], "SL_Settle")
LIVE_CONFIGS["live_migr_q"] = (mc("MC_rollout", "LiveSpec", env=0, edit=1, ann=0, oldds=True), "L_C02")
LIVE = {
    "C18": {"quick": ["settings_live_q"], "thorough": ["settings_live_q"]},
    "C02": {"quick": ["live_rollout_q", "live_canary_q"], "thorough": ["live_rollout_t", "live_canary_t", "live_migr_q"]},
    "C07": {"quick": ["live_fine_q"], "thorough": ["live_fine_q", "live_c07_t"]},
    "C11": {"quick": ["live_fine_q"], "thorough": ["live_fine_q"]},
}

# property -> {tier: [(config name, [M_ properties], [invariants])]}
MC = {
    "C01": {"quick": [("rollout_q", ["M_C01"], ["TypeOK"])], "thorough": [("rollout_t", ["M_C01"], ["TypeOK"]), ("canary_t", ["M_C01"], []), ("rollout_lost_t", ["M_C01", "M_C03"], [])]},
    "C03": {"quick": [("rollout_q", ["M_C03"], []), ("rollout_migr_q", ["M_C03", "M_C01", "M_C12"], ["TypeOK"])],
            "thorough": [("rollout_t", ["M_C03"], []), ("rollout_mu2_t", ["M_C03"], []), ("rollout_migr_t", ["M_C03", "M_C01", "M_C12", "M_C14"], ["TypeOK"])]},
    "C04": {"quick": [("canary_q", ["M_C04"], [])], "thorough": [("canary_t", ["M_C04"], []), ("canary_narrow_t", ["M_C04", "M_C01", "M_C03"], [])]},
    "C05": {"quick": [("canary_q", ["M_C05"], [])], "thorough": [("canary_t", ["M_C05"], []), ("canary_manual_q", ["M_C05"], [])]},
    "C06": {"quick": [("canary_q", ["M_C06"], [])], "thorough": [("canary_t", ["M_C06"], [])]},
    "C11": {"quick": [("fine_q", ["M_C05", "M_C13"], ["TypeOK", "I_Rollback", "HalfDoneIsVisible"])], "thorough": [("fine_t", ["M_C05", "M_C13", "M_C04"], ["TypeOK", "I_Rollback", "HalfDoneIsVisible"])]},
    "C07": {"quick": [("canary_fail_q", ["M_C07"], []), ("fine_q", ["M_C07"], ["I_Rollback", "HalfDoneIsVisible"])], "thorough": [("canary_fail_t", ["M_C07", "M_C05"], []), ("canary_t", ["M_C07"], [])]},
    "C08": {"quick": [("rollout_q", ["M_C08"], [])], "thorough": [("rollout_t", ["M_C08"], []), ("canary_t", ["M_C08"], [])]},
    "C09": {"quick": [("rollout_q", ["M_C09"], [])], "thorough": [("rollout_t", ["M_C09"], [])]},
    "C13": {"quick": [("rollout_q", ["M_C13"], ["I_C13m"])], "thorough": [("rollout_t", ["M_C13"], ["I_C13m"]), ("canary_t", ["M_C13"], ["I_C13m"])]},
    "C14": {"quick": [("rollout_q", ["M_C14"], [])], "thorough": [("rollout_t", ["M_C14"], []), ("canary_t", ["M_C14"], [])]},
    "C15": {"quick": [("canary_q", ["M_C15"], [])], "thorough": [("canary_t", ["M_C15"], [])]},
    "C02": {"quick": [("rollout_q", [], ["TypeOK"])], "thorough": [("rollout_t", [], ["TypeOK"])]},
    "C10": {"quick": [("rollout_q", ["M_C10"], [])], "thorough": [("rollout_t", ["M_C10"], [])]},
    "C12": {"quick": [("rollout_q", ["M_C12"], [])], "thorough": [("rollout_t", ["M_C12"], [])]},
    "C18": {"quick": [("settings_q", ["SM_C18", "SM_Conf"], ["SI_C18", "SI_Valid", "STypeOK"])], "thorough": [("settings_t", ["SM_C18", "SM_Conf"], ["SI_C18", "SI_Valid", "STypeOK"])]},
}

# ---- B3: vector generators (module, constants of the cfg per tier, formulas that judge the recorded steps) ----
B3 = {
    "C14": [dict(gen="Gen_Limits", quick='MaxN = 3\n  Reps = 1\n  MaxUs = {"1"}\n  MaxSFs = {"0", "1"}\n  Variants <- VariantsQuick',
                 thorough='MaxN = 4\n  Reps = 1\n  MaxUs = {"1", "50%"}\n  MaxSFs = {"0", "1"}\n  Variants <- VariantsQuick', props=["P_C14"])],
    "C01": [dict(gen="Gen_Dedup", quick="Full = FALSE\n  Reps = 1", thorough="Full = TRUE\n  Reps = 2", props=["P_C01", "P_C03"])],
    "C17": [dict(gen="Gen_Batch", quick="BatchSizes = {2, 3, 8, 16}", thorough="BatchSizes = {2, 3, 5, 8, 16, 32, 64}", props=["P_C17", "P_C16"])],
    "C18": [dict(gen="Gen_Settings", quick="MaxSettings = 3\n  AllOrders = FALSE\n  Full = FALSE", thorough="MaxSettings = 3\n  AllOrders = TRUE\n  Full = TRUE", props=["P_C18", "P_C10"])],
    "C06": [dict(gen="Gen_Canary", quick="Full = FALSE", thorough="Full = TRUE", props=["P_C06", "P_C08", "P_C14"])],
    # the promotion decision of one real EDS reconcile at every age / restart / pause / validation / failure combination
    "C05": [dict(gen="Gen_Promotion", quick="Full = FALSE", thorough="Full = TRUE", props=["P_C05", "P_C08"])],
    "C09": [dict(gen="Gen_Limits", quick='MaxN = 4\n  Reps = 1\n  MaxUs = {"1"}\n  MaxSFs = {"0"}\n  Variants <- VariantsQuick',
                 thorough='MaxN = 4\n  Reps = 1\n  MaxUs = {"1", "50%"}\n  MaxSFs = {"0"}\n  Variants <- VariantsThorough', props=["P_C09", "P_C08"])],
    "C08": [dict(gen="Gen_Canary", quick="Full = FALSE", thorough="Full = TRUE", props=["P_C08"]),
            dict(gen="Gen_Limits", quick='MaxN = 3\n  Reps = 1\n  MaxUs = {"1", "2"}\n  MaxSFs = {"0"}\n  Variants <- VariantsQuick',
                 thorough='MaxN = 4\n  Reps = 2\n  MaxUs = {"1", "2", "50%"}\n  MaxSFs = {"0", "1"}\n  Variants <- VariantsQuick', props=["P_C08", "P_C09"])],
    "C03": [dict(gen="Gen_Limits",
                 quick='MaxN = 4\n  Reps = 2\n  MaxUs = {"0", "1", "2", "50%"}\n  MaxSFs = {"0", "1"}\n  Variants <- VariantsQuick',
                 thorough='MaxN = 4\n  Reps = 3\n  MaxUs = {"0", "1", "2", "3", "25%", "50%", "100%"}\n  MaxSFs = {"0", "1", "50%"}\n  Variants <- VariantsThorough',
                 props=["P_C03", "P_C09", "P_C08", "P_C01"])],
}

# ---- function-level conformance: generator module, judgement module, constants per tier ----
FN = {
    "C01": [dict(gen="Gen_Fitness", judge="Judge_Fitness", quick="MaxTerms = 1", thorough="MaxTerms = 2")],
    "C16": [dict(gen="Gen_Defaults", judge="Judge_Defaults", quick="Full = FALSE", thorough="Full = TRUE")],
    "C20": [dict(gen="Gen_Labels", judge="Judge_Labels", quick="MaxLen = 2\n  MaxKeys = 2", thorough="MaxLen = 2\n  MaxKeys = 3")],
}

# ---- binding B2: which Sched_<name>.cfg provides the simulated behaviours replayed into the real code
SCHED = {p: ["canary"] for p in ("C01", "C02", "C03", "C04", "C05", "C07", "C08", "C09", "C12", "C13", "C14", "C15")}
SCHED.update({"C18": ["settings"], "C10": ["settings"]})   # behaviours of SettingsSys.tla (settings controller + replica-set sync)
# behaviours of Multi.tla (two ExtendedDaemonSets sharing the nodes; same name in two namespaces / two names in one namespace)
# behaviours of Cluster.tla started in the middle of a migration from a DaemonSet (OldDS)
for _p in ("C03", "C12", "C02", "C01"):
    SCHED[_p] = SCHED[_p] + ["migration"]
for _p in ("C12", "C13", "C14", "C01"):
    SCHED[_p] = SCHED[_p] + ["multi"]

# ---- fault enumeration: scenarios per tier; formulas judged on the faulted runs ----
FAULTS = {
    "C11": {"quick": "first-deployment,rolling-update,canary-promotion,canary-failure-rollback,node-removal",
            "thorough": "first-deployment,rolling-update,canary-promotion,canary-failure-rollback,node-removal,settings-change,manual-fail-command",
            "pairs": 150, "props": ["P_C11", "P_C11f", "P_C02", "P_C07"], "invs": ["I_C13"]},
    "C07": {"quick": "canary-failure-rollback,manual-fail-command", "thorough": "canary-failure-rollback,manual-fail-command,canary-promotion",
            "pairs": 100, "props": ["P_C07", "P_C11f", "P_C02", "P_C05"], "invs": []},
}

# ---- TLAPS: unbounded theorems about the specification (module names in spec/)
PROOFS = {"C18": ["SettingsProof"], "C03": ["LimitsProof"], "C05": ["PromotionProof"]}

RULES = {
    "default": "cases = recorded steps of the real reconcilers (scenario corpus + seeded random walks over the action vocabulary, each followed by a convergence tail; state vectors enumerated by TLC and materialised as real objects, one real reconcile each); a case is non-trivial when the antecedent of one of the property's step formulas held on it; distinct = distinct NT tuples printed by TLC (formula clause + the abstract quantities it decided on)",
}
