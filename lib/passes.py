"""The passes of a check (DESIGN section 8)."""
import json
import os
import re
import time

import plan
import vcheck


def trace_pass(ctx):
    props, invs = plan.TRACE.get(ctx.pid, ([], []))
    if not props and not invs:
        return True
    t = plan.TIERS[ctx.tier]
    trace = os.path.join(ctx.work, "trace.ndjson")
    out, dt = ctx.sim(["traces", "-in", ctx.pid, "-seed", str(ctx.seed), "-n", str(t["walks"]), "-steps", str(t["steps"]), "-out", trace])
    info = json.loads(out.strip().splitlines()[-1])
    ctx.cov["passes"].append({"pass": "harness-traces", "wall_s": round(dt, 1), **info})
    ctx.cov["traces_validated_against_impl"] += info["scenarios"] + info["walks"]
    ctx.cov["evaluations"] += info["events"]
    ctx.cov["samples"] += vcheck.sample_events(trace)
    ok = ctx.judge_traces(trace, props, invs)
    if ok:
        conformance_pass(ctx, trace)
    return ok


def conformance_pass(ctx, trace):
    """P_Conf: how many recorded reconciles are outcomes the decision procedures of the model allow (measured, not convicting)."""
    tot = okn = 0
    drift, dt = [], 0.0
    got = False
    for ch in ctx.split_trace(trace):
        cfg = ("SPECIFICATION Spec\nCONSTANT TraceFile = \"%s\"\nCONSTANT KnownFindings = {}\nCONSTANT Notes = FALSE\n"
               "PROPERTY P_Conf\nPOSTCONDITION ConfReport\nCHECK_DEADLOCK FALSE\n" % ch)
        try:
            rc, out, dt1, d = ctx.tlc("Trace.tla", cfg, "conformance", workers=1, timeout=900)
        except vcheck.MachineryError as ex:
            ctx.cov["conformance"] = {"error": str(ex)[:200]}
            return
        finally:
            if ch != trace and os.path.exists(ch):
                os.remove(ch)
        m = re.search(r'<<"CONF", (\d+), (\d+)>>', out)
        if m:
            got = True
            tot += int(m.group(1))
            okn += int(m.group(2))
        drift += re.findall(r'<<"DRIFT", (\d+), "(\w+)">>', out)
        dt += dt1
    if got:
        prev = ctx.cov.get("conformance", {"reconciles_compared": 0, "conformant": 0, "drift_lines": [], "wall_s": 0})
        ctx.cov["conformance"] = {"reconciles_compared": prev.get("reconciles_compared", 0) + tot, "conformant": prev.get("conformant", 0) + okn,
                                  "drift_lines": prev.get("drift_lines", []) + [int(x[0]) for x in drift[:20]], "wall_s": round(prev.get("wall_s", 0) + dt, 1),
                                  "meaning": "recorded reconciles of the real code (scenario / walk traces and replayed model schedules) that are outcomes of the decision procedures in spec/Ctrl.tla (the bodies of the model's reconcile actions); 100% means the exhaustive design pass speaks about the code as it behaved here"}
        if tot != okn:
            vcheck.log("DRIFT property=%s %d of %d recorded reconciles are not outcomes of the model (non-convicting, see evidence)" % (ctx.pid, tot - okn, tot))


def mc_cfg(c, props, invs, known):
    kf = "{" + ", ".join('"%s"' % k for k in known) + "}"
    s = "SPECIFICATION %s\nCONSTANTS\n" % c["spec"]
    if "raw" in c:
        # a system model other than Cluster.tla: its constants are given verbatim
        s += c["raw"] + "  KnownFindings = %s\n  Notes = FALSE\nVIEW %s\n" % (kf, c.get("view", "view"))
        if invs:
            s += "INVARIANT " + " ".join(invs) + "\n"
        if props:
            s += "PROPERTY " + " ".join(props) + "\n"
        return s + "CHECK_DEADLOCK FALSE\n"
    s += "  NodeSeq <- %s\n  TmplSeq <- %s\n  InitFits <- %s\n  Strat <- %s\n" % (c["nodes"], c["tmpls"], c["fits"], c["strat"])
    s += "  EnvBudget = %d\n  EditBudget = %d\n  AnnBudget = %d\n  MaxPerNode = %d\n  AgeCap = %d\n" % (c["env"], c["edit"], c["ann"], c["per_node"], c["agecap"])
    s += "  EnvKinds = %s\n  FaultBudget = %d\n" % (c.get("kinds", plan.ALL_KINDS), c.get("fault", 0))
    if c.get("oldds"):
        s += "  OldDS <- MC_OldDS\n"
    s += "  KnownFindings = %s\n  Notes = FALSE\nVIEW view\n" % kf
    if invs:
        s += "INVARIANT " + " ".join(invs) + "\n"
    if props:
        s += "PROPERTY " + " ".join(props) + "\n"
    s += "CHECK_DEADLOCK FALSE\n"
    return s


def design_pass(ctx):
    """Exhaustive TLC search of the bounded configurations of Cluster.tla with this property's formulas.
    A counterexample in the MODEL is not a verdict about the code (DESIGN 2.3): it is reported as a machinery error
    unless the same formula also fails on real-code behaviour (which the other passes decide)."""
    todo = plan.MC.get(ctx.pid, {}).get(ctx.tier, [])
    budget = 240 if ctx.tier == "quick" else 1500
    for name, props, invs in todo:
        c = plan.MC_CONFIGS[name]
        cfg = mc_cfg(c, props, invs, ctx.known_ids)
        try:
            rc, out, dt, d = ctx.tlc(c["module"] + ".tla", cfg, "mc-" + name, workers=16, timeout=budget, extra=["-dumpTrace", "json", "cex.json"])
            timed_out = False
        except vcheck.MachineryError as ex:
            if "timeout" not in str(ex):
                raise
            # a design pass that hits its time limit is not an error either way: the verdict comes from the real-code passes
            out = open(os.path.join(ctx.work, "mc-" + name, "tlc.out")).read() if os.path.exists(os.path.join(ctx.work, "mc-" + name, "tlc.out")) else ""
            timed_out, dt = True, budget
        gen, dist = ctx.tlc_stats(out)
        if timed_out:
            ms = re.findall(r"([\d,]+) states generated.*?([\d,]+) distinct states found", out)
            if ms:
                gen, dist = int(ms[-1][0].replace(",", "")), int(ms[-1][1].replace(",", ""))
        exhaustive = "Model checking completed. No error has been found." in out
        ctx.cov["passes"].append({"pass": "design:" + name, "formulas": props + invs, "states_generated": gen, "distinct_states": dist,
                                  "exhaustive": exhaustive, "wall_s": round(dt, 1), "constants": ({k: c[k] for k in ("nodes", "strat", "env", "edit", "ann", "agecap")} if "raw" not in c else " ".join(c["raw"].split()))})
        ctx.cov["states"] += dist
        ctx.cov["transitions"] += gen
        m = re.search(r"(Action property|Invariant|Temporal property) (\S+) (is|was) violated", out)
        if m:
            raise vcheck.MachineryError("the MODEL violates %s in configuration %s (counterexample in %s/mc-%s); a model counterexample is not a verdict about the code: "
                                        "convert it with bin/cex2trace and compare with the real code" % (m.group(2), name, ctx.work, name))
        if not exhaustive and not timed_out:
            raise vcheck.MachineryError("TLC design pass %s failed:\n%s" % (name, out[-2000:]))
    ctx.cov["exhaustive"] = all(p.get("exhaustive", True) for p in ctx.cov["passes"] if p["pass"].startswith("design:"))


def proof_pass(ctx):
    """Unbounded design-level results checked by the TLA+ proof system (tlapm): for C18 the theorem that the reconciler's verdict
    rule admits at most one valid setting per node for every population (spec/SettingsProof.tla).  Like the TLC design passes
    this speaks about the specification; the binding to the code is Conf_Setting on recorded reconciles."""
    import subprocess, shutil
    for mod in plan.PROOFS.get(ctx.pid, []):
        d = os.path.join(ctx.work, "proof-" + mod)
        os.makedirs(d, exist_ok=True)
        shutil.copy(os.path.join(vcheck.SPEC, mod + ".tla"), d)
        t0 = time.time()
        try:
            p = subprocess.run(["tlapm", "--threads", "8", mod + ".tla"], cwd=d, stdout=subprocess.PIPE, stderr=subprocess.STDOUT, text=True, timeout=600)
        except subprocess.TimeoutExpired:
            # the proof speaks about the specification only: a prover that does not answer in time is recorded, not an error
            ctx.cov["passes"].append({"pass": "tlaps:" + mod, "timed_out": True})
            continue
        m = re.search(r"All (\d+) obligations? proved", p.stdout)
        if not m:
            raise vcheck.MachineryError("tlapm did not prove %s:\n%s" % (mod, p.stdout[-1500:]))
        ctx.cov["passes"].append({"pass": "tlaps:" + mod, "obligations_proved": int(m.group(1)), "wall_s": round(time.time() - t0, 1)})


def action_coverage_pass(ctx):
    """Vacuity guard for the design passes (thorough tier): the property's quick-size configurations are searched once more with
    TLC's `-coverage 1`; for every place where a model action emits its event (`ev' = ...` / `sev' = ...`) the number of successor
    states generated there is recorded, and the actions never taken in that configuration are LISTED (not hidden)."""
    if ctx.tier != "thorough":
        return
    for name, props, invs in plan.MC.get(ctx.pid, {}).get("quick", []):
        c = plan.MC_CONFIGS[name]
        cfg = mc_cfg(c, props, invs, ctx.known_ids)
        try:
            rc, out, dt, d = ctx.tlc(c["module"] + ".tla", cfg, "cov-" + name, workers=16, timeout=900, extra=["-coverage", "1"])
        except vcheck.MachineryError as ex:
            ctx.cov["passes"].append({"pass": "action-coverage:" + name, "error": str(ex)[:200]})
            continue
        # the last statistics block
        k = out.rfind("The coverage statistics at")
        block = out[k:] if k >= 0 else out
        per_line = {}
        for m in re.finditer(r"^\s*\|*line (\d+), col \d+ to line \d+, col \d+ of module (\w+): (\d+)", block, re.M):
            key = (m.group(2), int(m.group(1)))
            per_line[key] = max(per_line.get(key, 0), int(m.group(3)))
        counts = {}
        mod = "SettingsSys" if c["module"] == "SettingsSys" else "Cluster"
        for i, line in enumerate(open(os.path.join(vcheck.SPEC, mod + ".tla")), 1):
            mm = re.search(r"\bs?ev' = \w+\(\"(\w+)\"", line)
            if mm:
                counts[mm.group(1)] = counts.get(mm.group(1), 0) + per_line.get((mod, i), 0)
        never = sorted(a for a, n in counts.items() if n == 0)
        ctx.cov["passes"].append({"pass": "action-coverage:" + name, "successors_per_action": counts, "actions_never_taken": never, "wall_s": round(dt, 1)})


def liveness_pass(ctx):
    """Design-level liveness: TLC checks the temporal property under weak fairness on a small configuration (no state
    constraint).  A counterexample in the model is a machinery error, not a verdict; the convicting convergence check is the
    tail of the real code."""
    for name in plan.LIVE.get(ctx.pid, {}).get(ctx.tier, []):
        c, prop = plan.LIVE_CONFIGS[name]
        cfg = mc_cfg(c, [prop], [], ctx.known_ids)
        budget = 300 if ctx.tier == "quick" else 1800
        try:
            rc, out, dt, d = ctx.tlc(c["module"] + ".tla", cfg, "live-" + name, workers=16, timeout=budget)
        except vcheck.MachineryError as ex:
            if "timeout" in str(ex):
                ctx.cov["passes"].append({"pass": "liveness:" + name, "property": prop, "exhaustive": False, "timed_out": True})
                continue
            raise
        gen, dist = ctx.tlc_stats(out)
        okl = "Model checking completed. No error has been found." in out
        ctx.cov["passes"].append({"pass": "liveness:" + name, "property": prop, "states_generated": gen, "distinct_states": dist, "holds": okl, "wall_s": round(dt, 1)})
        ctx.cov["states"] += dist
        ctx.cov["transitions"] += gen
        if not okl:
            if re.search(r"Temporal property \S+ was violated", out):
                raise vcheck.MachineryError("the MODEL violates liveness property %s in %s (see %s/live-%s/tlc.out); not a verdict about the code" % (prop, name, ctx.work, name))
            raise vcheck.MachineryError("TLC liveness pass %s failed:\n%s" % (name, out[-2000:]))


def b3_pass(ctx):
    ok = True
    for spec in plan.B3.get(ctx.pid, []):
        gen = spec["gen"]
        vec = os.path.join(ctx.work, gen + ".vectors.ndjson")
        cfg = "CONSTANTS\n  OutFile = \"%s\"\n  %s\n" % (vec, spec[ctx.tier])
        rc, out, dt, d = ctx.tlc(gen + ".tla", cfg, "gen-" + gen, workers=1, timeout=900)
        m = re.search(r'<<"VECTORS", (\d+)>>', out)
        if not m or not os.path.exists(vec):
            raise vcheck.MachineryError("vector generation %s failed:\n%s" % (gen, out[-2000:]))
        nvec = int(m.group(1))
        trace = os.path.join(ctx.work, gen + ".trace.ndjson")
        o, dt2 = ctx.sim(["vectors", "-in", vec, "-out", trace], timeout=3000)
        info = json.loads(o.strip().splitlines()[-1])
        ctx.cov["passes"].append({"pass": "b3:" + gen, "vectors": nvec, "gen_wall_s": round(dt, 1), "harness_wall_s": round(dt2, 1), **info})
        ctx.cov["evaluations"] += info["runs"]
        ctx.cov["traces_validated_against_impl"] += info["runs"]
        with open(vec) as f:
            ctx.cov["samples"].append({"vector": json.loads(f.readline())})
        props = [p for p in spec["props"]]
        if not ctx.judge_traces(trace, props, [], label="b3-" + gen):
            ok = False
            break
        os.remove(trace)
        os.remove(vec)
    return ok


def fn_pass(ctx):
    """Function-level conformance: TLC enumerates input vectors, the harness calls the real functions, a TLA+ judgement
    module evaluates every (input, output) pair."""
    ok = True
    for spec in plan.FN.get(ctx.pid, []):
        gen, judge = spec["gen"], spec["judge"]
        vec = os.path.join(ctx.work, gen + ".vectors.ndjson")
        res = os.path.join(ctx.work, gen + ".results.ndjson")
        cfg = "CONSTANTS\n  OutFile = \"%s\"\n  %s\n" % (vec, spec[ctx.tier])
        rc, out, dt, d = ctx.tlc(gen + ".tla", cfg, "gen-" + gen, workers=1, timeout=900)
        m = re.search(r'<<"VECTORS", (\d+)>>', out)
        if not m or not os.path.exists(vec):
            raise vcheck.MachineryError("vector generation %s failed:\n%s" % (gen, out[-2000:]))
        o, dt2 = ctx.sim(["fn", "-in", vec, "-out", res], timeout=3000)
        rc, out, dt3, d = ctx.tlc(judge + ".tla", "CONSTANTS\n  ResFile = \"%s\"\n" % res, "judge-" + judge, workers=1, timeout=1800)
        ctx.collect_notes(out)
        mj = re.search(r'<<"JUDGED", (\d+), (\d+), (\d+)>>', out)
        if not mj:
            raise vcheck.MachineryError("judgement %s failed:\n%s" % (judge, out[-2500:]))
        n, nontrivial, bad = int(mj.group(1)), int(mj.group(2)), int(mj.group(3))
        ctx.cov["passes"].append({"pass": "fn:" + gen, "vectors": n, "nontrivial": nontrivial, "bad": bad, "gen_wall_s": round(dt, 1),
                                  "harness_wall_s": round(dt2, 1), "judge_wall_s": round(dt3, 1)})
        ctx.cov["evaluations"] += n
        ctx.fn_nontrivial = getattr(ctx, "fn_nontrivial", 0) + nontrivial
        lines = open(res).read().splitlines()
        ctx.cov["samples"].append({"pair": json.loads(lines[len(lines) // 2])})
        known = set()
        for mk in re.finditer(r'<<"KNOWNBAD", (\d+), "([^"]+)">>', out):
            known.add(int(mk.group(1)))
            ctx.known_printed.add((ctx.pid, mk.group(2)))
        bads = [int(x) for x in re.findall(r'<<"BAD", (\d+)>>', out) if int(x) not in known]
        if bads:
            import hashlib
            i = bads[0]
            line = lines[i - 1]
            h = hashlib.sha1(line.encode()).hexdigest()[:10]
            os.makedirs(os.path.join(vcheck.VERIF, "replays"), exist_ok=True)
            path = os.path.join(vcheck.VERIF, "replays", "%s-%s.fn.ndjson" % (ctx.pid, h))
            with open(path, "w") as f:
                f.write(json.dumps(json.loads(line)["in"]) + "\n")
            # re-execute the single vector and judge it again
            res2 = os.path.join(ctx.work, "replay.results.ndjson")
            ctx.sim(["fn", "-in", path, "-out", res2])
            rc, out2, _, _ = ctx.tlc(judge + ".tla", "CONSTANTS\n  ResFile = \"%s\"\n" % res2, "judge-replay", workers=1, timeout=600)
            if not re.search(r'<<"BAD", 1>>', out2):
                raise vcheck.MachineryError("bad pair %d of %s not reproduced on re-execution (%s)" % (i, gen, path))
            ctx.report_violation(judge, path, "%d of %d (input, output) pairs of the real functions fail the reference in spec/%s.tla; first: vector %d" % (len(bads), n, judge, i))
            ok = False
            break
    return ok


def fn_replay(ctx, path):
    for spec in plan.FN.get(ctx.pid, []):
        res2 = os.path.join(ctx.work, "replay.results.ndjson")
        ctx.sim(["fn", "-in", os.path.abspath(path), "-out", res2])
        rc, out2, _, _ = ctx.tlc(spec["judge"] + ".tla", "CONSTANTS\n  ResFile = \"%s\"\n" % res2, "judge-replay", workers=1, timeout=600)
        if re.search(r'<<"BAD", \d+>>', out2):
            ctx.report_violation(spec["judge"], path, "the real function's answer fails the reference in spec/%s.tla" % spec["judge"])
            return False
    vcheck.log("replay accepted")
    return True


def fault_pass(ctx):
    """Fault enumeration: every API call index of the failure-free run x fault kind (quick: writes x {rejected, stop after};
    thorough: all calls x {rejected, answer lost, stop before, stop after} plus sampled pairs), failure-free convergence afterwards."""
    spec = plan.FAULTS.get(ctx.pid)
    if not spec:
        return True
    trace = os.path.join(ctx.work, "faults.ndjson")
    args = ["faults", "-in", spec[ctx.tier], "-out", trace, "-tier", ctx.tier, "-seed", str(ctx.seed), "-n", str(spec["pairs"] if ctx.tier == "thorough" else 0)]
    out, dt = ctx.sim(args, timeout=3000)
    info = json.loads(out.strip().splitlines()[-1])
    ctx.cov["passes"].append({"pass": "fault-enumeration", "wall_s": round(dt, 1), **info})
    ctx.cov["evaluations"] += info["runs"]
    ctx.cov["traces_validated_against_impl"] += info["runs"]
    ctx.cov["fault_runs"] = info["runs"]
    ctx.cov["api_calls_in_failure_free_runs"] = info["api_calls"]
    with open(trace) as f:
        labels = []
        for line in f:
            if line.startswith('{"ev":"faultEnd"'):
                labels.append(json.loads(line)["args"]["label"])
                if len(labels) >= 5:
                    break
    ctx.cov["samples"] += [{"faulted_run": x} for x in labels] + vcheck.sample_events(trace, 2)
    return ctx.judge_traces(trace, spec["props"], spec["invs"], label="faults")


def schedule_pass(ctx):
    """Binding B2: behaviours of the system models (TLC simulation of Cluster.tla through Sched.tla, of SettingsSys.tla through
    SchedSettings.tla, of the two-object composition Multi.tla) are replayed, label by label, into the real reconcilers; the
    resulting REAL trace is judged by the property's formulas and measured for conformance."""
    props, invs = plan.TRACE.get(ctx.pid, ([], []))
    for spec in plan.SCHED.get(ctx.pid, []):
        num, depth = (40, 50) if ctx.tier == "quick" else (400, 70)
        if spec == "multi":
            num, depth = (30, 80) if ctx.tier == "quick" else (300, 110)
        cfg = open(os.path.join(vcheck.SPEC, "Sched_%s.cfg" % spec)).read().replace("Depth = 60", "Depth = %d" % depth)
        module = {"settings": "SchedSettings.tla", "multi": "Multi.tla"}.get(spec, "Sched.tla")
        rc, out, dt, d = ctx.tlc(module, cfg, "sched-" + spec, workers=1, timeout=900, extra=["-simulate", "num=%d" % num, "-depth", str(depth + 1), "-seed", str(ctx.seed)])
        scheds, seen = [], set()
        for m in re.finditer(r'<<\s*"SCHED",\s*<<(.*?)>>\s*>>', out, re.S):
            s = re.findall(r'"([^"]*)"', m.group(1))
            if tuple(s) not in seen:    # TLC evaluates the printing constraint more than once per behaviour
                seen.add(tuple(s))
                scheds.append(s)
        if not scheds:
            raise vcheck.MachineryError("no schedule generated by TLC simulation:\n" + out[-1500:])
        sfile = os.path.join(ctx.work, "schedules-%s.json" % spec)
        nodes = ["n1", "n2", "n3"]
        json.dump({"config": spec, "nodes": nodes, "tmpls": ["A", "B"], "schedules": scheds}, open(sfile, "w"))
        trace = os.path.join(ctx.work, "schedules-%s.ndjson" % spec)
        o, dt2 = ctx.sim(["schedules", "-in", sfile, "-out", trace])
        info = json.loads(o.strip().splitlines()[-1])
        kinds = {}
        for sch in scheds:
            for lab in sch:
                k = lab.split("|")[-1].split(":")[0]
                kinds[k] = kinds.get(k, 0) + 1
        ctx.cov["passes"].append({"pass": "b2-schedules:" + spec, "tlc_wall_s": round(dt, 1), "harness_wall_s": round(dt2, 1), **info,
                                  "labels_per_model_action": dict(sorted(kinds.items()))})
        ctx.cov["traces_validated_against_impl"] += info["schedules"]
        ctx.cov["evaluations"] += info["events"]
        ctx.cov["samples"].append({"schedule": scheds[0][:25]})
        ok = ctx.judge_traces(trace, props, invs, label="b2-" + spec)
        if not ok:
            return False
        conformance_pass(ctx, trace)
    return True


def race_pass(ctx):
    """C17: the batch vectors (parallel pod operations with failing API calls) and the concurrent mode (four reconcilers,
    kubelet, clock and user as goroutines on one store) run in a binary built with the race detector.  A race report is the
    race detector's verdict, not the specification's (DESIGN section 7); the recorded states / convergence tail are judged by TLC."""
    if ctx.pid != "C17":
        return True
    import subprocess
    race = ctx.build(race=True)
    env = dict(os.environ, GORACE="exitcode=66 halt_on_error=0")
    # 1. batches under the race detector
    spec = plan.B3["C17"][0]
    vec = os.path.join(ctx.work, "race.vectors.ndjson")
    cfg = "CONSTANTS\n  OutFile = \"%s\"\n  %s\n" % (vec, spec[ctx.tier])
    ctx.tlc(spec["gen"] + ".tla", cfg, "gen-race", workers=1, timeout=600)
    logs = []
    def run_race(args, name):
        p = subprocess.run([race] + args, cwd=ctx.work, env=env, stdout=subprocess.PIPE, stderr=subprocess.PIPE, text=True, timeout=3000)
        n = p.stderr.count("WARNING: DATA RACE")
        logs.append((name, p.returncode, n, p.stderr))
        if p.returncode not in (0, 66):
            raise vcheck.MachineryError("race binary failed (%d): %s" % (p.returncode, p.stderr[-2000:]))
        return p.stdout, n
    out, n1 = run_race(["vectors", "-in", vec, "-out", os.path.join(ctx.work, "race.trace.ndjson")], "batches")
    os.remove(os.path.join(ctx.work, "race.trace.ndjson"))
    # 2. concurrent mode
    runs, steps = (6, 60) if ctx.tier == "quick" else (40, 150)
    trace = os.path.join(ctx.work, "concurrent.ndjson")
    out, n2 = run_race(["concurrent", "-n", str(runs), "-steps", str(steps), "-seed", str(ctx.seed), "-out", trace], "concurrent")
    info = json.loads(out.strip().splitlines()[-1])
    ctx.cov["passes"].append({"pass": "race-detector", "batch_races": n1, "concurrent_races": n2, **info})
    ctx.cov["evaluations"] += info["runs"]
    ctx.cov["traces_validated_against_impl"] += info["runs"]
    ctx.cov["explanation"] = ("error accounting and interleaving safety are decided by TLA+ formulas on recorded executions (C17_Step, I_C17, P_C17c, C02 on the "
                              "tails); absence of Go data races is observed by the race detector on exactly those executions (not expressible in TLA+)")
    if n1 + n2 > 0:
        os.makedirs(os.path.join(vcheck.VERIF, "replays"), exist_ok=True)
        path = os.path.join(vcheck.VERIF, "replays", "C17-race-%d.log" % ctx.seed)
        with open(path, "w") as f:
            for name, rc, n, err in logs:
                f.write("== %s rc=%d races=%d\n%s\n" % (name, rc, n, err[:20000]))
        ctx.report_violation("race", path, "%d data race report(s) from the Go race detector (batches: %d, concurrent mode: %d)" % (n1 + n2, n1, n2))
        return False
    return ctx.judge_traces(trace, ["P_C17c", "P_C02", "P_C16"], ["I_C17"], label="concurrent")


def run_property(ctx):
    ok = trace_pass(ctx)
    if ok:
        ok = schedule_pass(ctx)
    if ok:
        ok = race_pass(ctx)
    if ok:
        ok = fault_pass(ctx)
    if ok:
        ok = fn_pass(ctx)
    if ok:
        ok = b3_pass(ctx)
    if ok:
        design_pass(ctx)
        liveness_pass(ctx)
        proof_pass(ctx)
        action_coverage_pass(ctx)
    level = {"C11": "fault_enumeration", "C17": "other"}.get(ctx.pid, "model_checking")
    ctx.write_evidence(level, rule=plan.RULES["default"])
    return ok


def replay(ctx, path):
    if path.endswith(".fn.ndjson"):
        return fn_replay(ctx, path)
    props, invs = plan.TRACE.get(ctx.pid, ([], []))
    for spec in plan.B3.get(ctx.pid, []):
        props = sorted(set(props) | set(spec["props"]))
    res = ctx.validate_traces(os.path.abspath(path), props, invs, "replay")
    if res is None:
        vcheck.log("replay accepted: no formula of %s fails on %s" % (ctx.pid, path))
        return True
    ctx.report_violation(res[0], path, "formula %s fails at event %d" % res)
    return False
