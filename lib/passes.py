"""The passes of a check (DESIGN section 8)."""
import json
import os

import plan
import vcheck


def trace_pass(ctx):
    props, invs = plan.TRACE.get(ctx.pid, ([], []))
    if not props and not invs:
        return True
    t = plan.TIERS[ctx.tier]
    trace = os.path.join(ctx.work, "trace.ndjson")
    out, dt = ctx.sim(["traces", "-in", ctx.pid, "-seed", str(ctx.seed), "-n", str(t["walks"]), "-steps", str(t["steps"]), "-out", trace])
    info = json.loads(out.strip().splitlines()[-1])
    ctx.cov["passes"].append({"pass": "harness-traces", "wall_s": round(dt, 1), **info})
    ctx.cov["traces_validated_against_impl"] += info["scenarios"] + info["walks"]
    ctx.cov["evaluations"] += info["events"]
    ctx.cov["samples"] += vcheck.sample_events(trace)
    return ctx.judge_traces(trace, props, invs)


def run_property(ctx):
    ok = trace_pass(ctx)
    ctx.write_evidence("model_checking", rule=plan.RULES["default"])
    return ok


def replay(ctx, path):
    props, invs = plan.TRACE.get(ctx.pid, ([], []))
    res = ctx.validate_traces(os.path.abspath(path), props, invs, "replay")
    if res is None:
        vcheck.log("replay accepted: no formula of %s fails on %s" % (ctx.pid, path))
        return True
    ctx.report_violation(res[0], path, "formula %s fails at event %d" % res)
    return False
