#!/usr/bin/env python3
"""Generates /verif/MANIFEST.json from the table below (one source of truth for the registered checks)."""
import json, os, subprocess
V = os.path.dirname(os.path.dirname(os.path.abspath(__file__)))
hook_commits = subprocess.run(["git", "-C", "/repo", "log", "--format=%h", "--grep", "^verif hook"], capture_output=True, text=True).stdout.split()

NOTE = ("Trusted base: TLC 1.8.0 evaluating the TLA+ formulas; the conformance harness (Go: controller-runtime fake client v0.19 as API server, "
        "virtual time by shifting stored instants, projection to the abstract state); small clusters (<= 6 nodes, 3 templates); reconcile "
        "requests in any order (safety) / fair rounds (convergence).")

CLAIMED = {
 "C01": ("model_checking", "step formula C01_Step (spec/Props.tla) evaluated by TLC on every recorded ERS reconcile of the real code (scenario corpus + seeded random walks with duplicates, failed/unknown pods, node churn, both pinning modes)", "TLC trace validation of real reconciles against TLA+ step formulas"),
 "C02": ("model_checking", "convergence tails of the real reconcilers (fair rounds after every scenario and random walk) judged by the TLA+ predicate Converged on the final projected state; a tail that does not reach a write-free round is a livelock", "TLA+ convergence predicate on real-code convergence tails"),
 "C03": ("model_checking", "C03_Step: availability budget recomputed in TLA+ from the state the sync read, compared with the pods the real sync deleted (not clean-up)", "TLC trace validation: budget formula on real active-role syncs"),
 "C04": ("model_checking", "C04_Step: creator/node of every pod write versus status.canary.nodes, hands-off of the active RS, canary label on/off, bound on list growth", "TLC trace validation of real canary histories"),
 "C05": ("model_checking", "C05_Step: every change of status.activeReplicaSet in a real EDS reconcile must satisfy PromotionAllowed evaluated on the state it read", "TLC trace validation: promotion rule"),
 "C07": ("model_checking", "C07_Step: rollback writes of real EDS reconciles that see a failed canary; retention and emptiness of deleted failed replica sets; convergence tails after failure", "TLC trace validation: rollback formulas"),
 "C08": ("model_checking", "C08_Step on real syncs under every annotation toggled by scenarios and walks; resumption through convergence tails", "TLC trace validation: pause/freeze formulas"),
 "C09": ("model_checking", "C09_Step (ramp bound recomputed in TLA+ from the Active condition age) and the spacing clause with a history variable in Trace.tla", "TLC trace validation: slow-start bound and spacing"),
 "C10": ("model_checking", "C10_Step on every pod the real code creates (pinning, owner, labels, hash, tolerations, resolved resources) and on every update-delete of an up-to-date pod", "TLC trace validation: pod construction and stability"),
 "C12": ("model_checking", "C12_Step on every write of every real reconcile, attributed to the reconciled object by the harness' per-controller clients", "TLC trace validation: write targets"),
 "C13": ("model_checking", "C13_Step / invariant I_C13 on real edit histories (A-B-A, A-B-C, edits during canaries)", "TLC trace validation: replica-set create/delete guards, hash triple"),
 "C14": ("model_checking", "C14_Step: status function recomputed in TLA+ after every real EDS reconcile, ordering of counters after every real sync, quiescent clause on tails", "TLC trace validation: status function"),
 "C15": ("model_checking", "C15_Step after every real EDS reconcile of an active canary under node churn", "TLC trace validation: canary node list"),
 "C11": ("fault_enumeration", "every API call index of the failure-free run of the corpus scenarios x fault kind (rejected / answer lost / process stop before or after the call, fresh controller instance), failure-free convergence afterwards; TLC evaluates every safety formula on every step of the faulted runs and compares the final state with the failure-free run (FinalAbs)", "fault enumeration on the real reconcilers, judged by TLA+ formulas"),
 "C16": ("model_checking", "boundary lattice of the spec enumerated by TLC (Gen_Defaults.tla), each point through the real Default / IsDefaulted / Validate and both real Reconcile functions; reference transcription of defaulting and validation in Judge_Defaults.tla; recovered panics monitored on every step of every trace (P_C16)", "TLA+ reference of defaulting/validation evaluated on the complete bounded lattice of real results"),
 "C19": ("model_checking", "C19_Step: frame condition and precondition of every kubectl-eds command body (run through verif shims with the cluster client) on the object diff, interpretation by the following real reconciles (state function, promotion of the validated replica set, rollback)", "TLC trace validation of real command executions"),
 "C20": ("model_checking", "Gen_Labels.tla enumerates label maps over an alphabet with all illegal characters (collisions included) and a lattice of status values; Judge_Labels.tla evaluates the real BuildInfoLabels and metric family generators", "TLA+ reference evaluated on the complete bounded input space of the real functions"),
 "C06": ("model_checking", "Gen_Canary.tla enumerates canary pod vectors x thresholds x previous conditions x annotations; one real sync of the canary replica set each; C06_Step (spec/Conf.tla) compares the Canary-Failed / Canary-Paused outcome with Ctrl!Can, the TLA+ transcription of the documented triggers, and checks stickiness, disabled switches and the creation stop", "TLA+ reference of the canary evaluation judged on real syncs of TLC-enumerated states"),
 "C17": ("other", "error accounting: Gen_Batch.tla batches of 2..64 parallel pod operations with none/first/alternate/all API calls failing through the real sync, judged by C17_Step; interleaving safety: four reconcilers + kubelet + clock + user as goroutines on one store, sampled states and convergence tail judged by TLC (I_C17, P_C17c, C02); data races: the same executions run under the Go race detector", "TLA+ formulas on recorded executions + Go race detector on the same executions"),
 "C18": ("model_checking", "Gen_Settings.tla: reference transcription of the conflict search, exhaustive design check (at most one valid setting per node for every bounded population), and every population x reconcile orders through the real reconciler; C18_Step at SettingsDone, C10_Step on the pods the following real sync creates", "TLA+ reference + exhaustive populations through the real setting reconciler"),
}
NA = {




}

def main():
    checks = []
    for pid, (level, text, tech) in sorted(CLAIMED.items()):
        checks.append({
            "property_id": pid,
            "quick_cmd": "bin/check %s --tier quick" % pid,
            "thorough_cmd": "bin/check %s --tier thorough" % pid,
            "evidence_file": "/verif/evidence/%s.json" % pid,
            "replay_cmd_template": "bin/check %s --replay {path}" % pid,
            "engine": "tla-trace",
            "level_claimed": {"category": level, "text": text, "design_ref": "DESIGN.md section 6 (%s)" % pid},
            "level_note": NOTE,
            "technique": tech,
        })
    m = {
        "version": 1,
        "setup_cmd": "bin/setup",
        "hooks": {"guard": "verif", "enable": "go build -tags verif (harness/cmd/edsim imports /repo through a replace directive)",
                  "baseline_off_cmd": "bin/baseline", "source_commits": hook_commits, "add_only": True},
        "engines": [
            {"name": "tla-trace", "path": "spec/Trace.tla", "serves_properties": sorted(CLAIMED), "kind_free_text": "TLC trace validation of recorded executions of the real reconcilers against TLA+ step formulas (spec/Props.tla), state bound from the log"},
        ],
        "checks": checks,
        "not_applicable": [{"property_id": k, "reason": v} for k, v in sorted(NA.items())],
        "notes": "See DESIGN.md. Known findings: known_findings.json.",
    }
    json.dump(m, open(os.path.join(V, "MANIFEST.json"), "w"), indent=1)

if __name__ == "__main__":
    main()
