"""Check engine of /verif: builds the harness from /repo's working tree, lets the real code produce traces /
function results, has TLC judge them with the TLA+ formulas, runs the TLC design pass, writes evidence.

Exit codes: 0 property held on everything explored; 1 VIOLATION (real-code behaviour, line printed);
2 machinery error (build failure, TLC crash, time-out of a mandatory pass, ...) - never a verdict."""
import hashlib
import json
import os
import re
import shutil
import subprocess
import sys
import time

VERIF = os.path.dirname(os.path.dirname(os.path.abspath(__file__)))
REPO = os.environ.get("VERIF_REPO", "/repo")
SPEC = os.path.join(VERIF, "spec")
HARNESS = os.path.join(VERIF, "harness")
GOENV = dict(os.environ, GOFLAGS="-mod=mod", GOPROXY="off", GOSUMDB="off", GOTOOLCHAIN="local", GOWORK="off",
             CGO_ENABLED=os.environ.get("CGO_ENABLED", "0"))
TAG = "verif"


class MachineryError(Exception):
    pass


def log(*a):
    print(*a, flush=True)


def run(cmd, cwd=None, env=None, timeout=None, check=True, capture=True):
    t0 = time.time()
    try:
        p = subprocess.run(cmd, cwd=cwd, env=env, timeout=timeout, stdout=subprocess.PIPE if capture else None,
                           stderr=subprocess.STDOUT if capture else None, text=True)
    except subprocess.TimeoutExpired as ex:
        raise MachineryError("timeout after %ss: %s" % (timeout, " ".join(cmd[:6]))) from ex
    if check and p.returncode != 0:
        raise MachineryError("command failed (%d): %s\n%s" % (p.returncode, " ".join(cmd[:8]), (p.stdout or "")[-4000:]))
    return p.returncode, p.stdout or "", time.time() - t0


def known_findings():
    path = os.path.join(VERIF, "known_findings.json")
    if not os.path.exists(path):
        return {"findings": [], "fixed": []}
    return json.load(open(path))


class Ctx:
    """One check run."""

    def __init__(self, pid, tier, seed):
        self.pid, self.tier, self.seed = pid, tier, seed
        self.t0 = time.time()
        self.work = os.path.join(VERIF, "work", "%s-%d" % (pid, os.getpid()))
        shutil.rmtree(self.work, ignore_errors=True)
        os.makedirs(self.work)
        self.cov = {"states": 0, "transitions": 0, "traces_validated_against_impl": 0, "evaluations": 0,
                    "distinct_nontrivial": 0, "samples": [], "passes": [], "exhaustive": False}
        self.assumptions = [
            "controller-runtime's in-memory API server (fake client, v0.19) stands for the real API server: no admission, no server-side defaulting, owner garbage collection only as an explicit environment action",
            "virtual time: advancing the clock is implemented as moving every stored instant back; one unit = 60 s; the in-memory failed-pod back-off follows the same virtual clock through the verif hook VerifSetBackOffClock",
            "reconcile requests arrive in any order for the safety clauses and in fair rounds for the convergence clauses",
            "small clusters: at most 6 nodes in histories, 3 templates",
        ]
        self.nt = set()
        self.known_printed = set()
        self.violations = 0
        self.edsim = None
        kf = known_findings()
        self.known_ids = sorted({f["id"] for f in kf.get("findings", [])})
        self.known = {f["id"]: f for f in kf.get("findings", [])}

    # ---------- build ----------
    def build(self, race=False):
        shutil.copy(os.path.join(REPO, "go.sum"), os.path.join(HARNESS, "go.sum"))
        if REPO != "/repo":
            # background sweeps (vp run --with-repo) build against a snapshot of the repository
            gm = os.path.join(HARNESS, "go.mod")
            txt = open(gm).read().replace("=> /repo/api", "=> %s/api" % REPO).replace("=> /repo\n", "=> %s\n" % REPO)
            open(gm, "w").write(txt)
        out = os.path.join(VERIF, "harness", "bin", "edsim-race" if race else "edsim")
        cmd = ["go", "build", "-tags", TAG, "-o", out]
        env = dict(GOENV)
        if race:
            cmd.insert(2, "-race")
            env["CGO_ENABLED"] = "1"
        cmd.append("./cmd/edsim")
        rc, outp, dt = run(cmd, cwd=HARNESS, env=env, timeout=900, check=False)
        if rc != 0:
            raise MachineryError("harness does not build against /repo:\n" + outp[-3000:])
        if not race:
            self.edsim = out
        self.cov["passes"].append({"pass": "build" + ("-race" if race else ""), "wall_s": round(dt, 1)})
        return out

    def sim(self, args, timeout=1200, binary=None, env=None):
        rc, out, dt = run([binary or self.edsim] + args, cwd=self.work, timeout=timeout, check=False, env=env)
        if rc != 0:
            raise MachineryError("edsim %s failed (%d):\n%s" % (args[0], rc, out[-3000:]))
        return out, dt

    # ---------- TLC ----------
    def tlc(self, module, cfg_text, name, workers=1, timeout=900, extra=None, check=False, heap=None):
        d = os.path.join(self.work, name)
        os.makedirs(d, exist_ok=True)
        for f in os.listdir(SPEC):
            if f.endswith(".tla"):
                shutil.copy(os.path.join(SPEC, f), d)
        with open(os.path.join(d, name + ".cfg"), "w") as f:
            f.write(cfg_text)
        cmd = ["tlc", "-workers", str(workers), "-metadir", os.path.join(d, "meta"), "-config", name + ".cfg", "-noGenerateSpecTE"]
        if extra:
            cmd += extra
        cmd.append(module)
        env = dict(os.environ)
        opts = env.get("JAVA_TOOL_OPTIONS", "")
        env["JAVA_TOOL_OPTIONS"] = (opts + " -Xss256m").strip()
        rc, out, dt = run(cmd, cwd=d, env=env, timeout=timeout, check=False)
        with open(os.path.join(d, "tlc.out"), "w") as f:
            f.write(out)
        return rc, out, dt, d

    @staticmethod
    def tlc_stats(out):
        m = re.search(r"(\d+) states generated, (\d+) distinct states found", out)
        gen, dist = (int(m.group(1)), int(m.group(2))) if m else (0, 0)
        return gen, dist

    def collect_notes(self, out):
        for line in out.splitlines():
            if line.startswith('<<"NT"'):
                self.nt.add(line.strip())
            elif line.startswith('<<"KNOWN-FINDING"'):
                m = re.match(r'<<"KNOWN-FINDING", "([^"]+)", "([^"]+)">>', line)
                if m:
                    self.known_printed.add((m.group(1), m.group(2)))

    # ---------- trace validation ----------
    def validate_traces(self, trace_file, props, invariants=(), label="verdict", timeout=1200):
        """Runs Trace.tla over trace_file with the named action properties / invariants.
        Returns None when accepted, else (property_name, line_number)."""
        n_lines = sum(1 for _ in open(trace_file))
        kf = "{" + ", ".join('"%s"' % k for k in self.known_ids) + "}"
        cfg = "SPECIFICATION Spec\nCONSTANT TraceFile = \"%s\"\nCONSTANT KnownFindings = %s\nCONSTANT Notes = TRUE\n" % (trace_file, kf)
        frame = [] if os.environ.get("VERIF_NOFRAME") == "1" or "concurrent" in os.path.basename(trace_file) else ["P_Frame"]
        if props or frame:
            cfg += "PROPERTY " + " ".join(list(props) + frame) + "\n"
        if invariants:
            cfg += "INVARIANT " + " ".join(invariants) + "\n"
        cfg += "POSTCONDITION TraceAccepted\nCHECK_DEADLOCK FALSE\n"
        rc, out, dt, d = self.tlc("Trace.tla", cfg, label, workers=1, timeout=timeout)
        self.collect_notes(out)
        gen, dist = self.tlc_stats(out)
        self.cov["passes"].append({"pass": label, "events": n_lines, "tlc_states": dist, "wall_s": round(dt, 1)})
        # every recorded step is one TLC state / transition of the trace specification
        self.cov["trace_states"] = self.cov.get("trace_states", 0) + dist
        self.cov["states"] += dist
        self.cov["transitions"] += max(dist - 1, 0)
        m = re.search(r"(Action property|Invariant|Temporal property) (\S+) (is|was) violated", out)
        if m:
            ls = re.findall(r"^/\\ l = (\d+)", out, re.M)
            line = int(ls[-1]) if ls else -1
            if m.group(2) == "P_Frame":
                raise MachineryError("harness frame condition violated at event %d of %s: the projected state after a reconcile does not agree with its recorded writes (see %s/tlc.out)" % (line + 1, trace_file, d))
            return (m.group(2), line)
        if "Model checking completed. No error has been found." in out and dist == n_lines:
            return None
        if re.search(r"Postcondition TraceAccepted .* is false", out):
            raise MachineryError("trace not consumed to the end (%d of %d): see %s/tlc.out" % (dist, n_lines, d))
        raise MachineryError("TLC did not finish trace validation: see %s/tlc.out\n%s" % (d, out[-2500:]))

    def cut_replay(self, trace_file, line):
        """Cuts the trace that contains event `line` (from its reset event) into a replay file."""
        lines = open(trace_file).read().splitlines()
        start = line
        while start > 1 and '"ev":"reset"' not in lines[start - 1][:40]:
            start -= 1
        seg = lines[start - 1:line]
        h = hashlib.sha1("\n".join(seg).encode()).hexdigest()[:10]
        os.makedirs(os.path.join(VERIF, "replays"), exist_ok=True)
        path = os.path.join(VERIF, "replays", "%s-%s.ndjson" % (self.pid, h))
        with open(path, "w") as f:
            f.write("\n".join(seg) + "\n")
        label = ""
        try:
            label = json.loads(seg[0])["args"].get("label", "")
        except Exception:
            pass
        return path, label, len(seg)

    def report_violation(self, prop, replay, detail=""):
        self.violations += 1
        log("VIOLATION property=%s replay=%s" % (self.pid, replay))
        if detail:
            log("  " + detail)

    def split_trace(self, trace_file, max_events=25000):
        """Cuts a long trace at `reset` events into chunks of at most about max_events events (TLC holds a chunk in memory)."""
        n = sum(1 for _ in open(trace_file))
        if n <= max_events * 1.3:
            return [trace_file]
        chunks, cur, cnt, k = [], None, 0, 0
        with open(trace_file) as f:
            for line in f:
                if cur is None or (cnt >= max_events and line.startswith('{"ev":"reset"')):
                    if cur:
                        cur.close()
                    k += 1
                    path = "%s.part%03d" % (trace_file, k)
                    chunks.append(path)
                    cur, cnt = open(path, "w"), 0
                cur.write(line)
                cnt += 1
        if cur:
            cur.close()
        return chunks

    def judge_traces(self, trace_file, props, invariants=(), label="verdict"):
        """Validates (in chunks); on a violation cuts the replay, re-validates it alone and reports. Returns True if clean."""
        chunks = self.split_trace(trace_file)
        res = None
        for i, ch in enumerate(chunks):
            res = self.validate_traces(ch, props, invariants, label if len(chunks) == 1 else "%s-%d" % (label, i + 1))
            if res is not None:
                trace_file = ch
                break
            if ch != trace_file:
                os.remove(ch)
        if res is None:
            return True
        name, line = res
        replay, scen, n = self.cut_replay(trace_file, line)
        # the cut trace must fail on its own (deterministic re-judgement of the recorded real execution)
        res2 = self.validate_traces(replay, props, invariants, label + "-replay")
        if res2 is None:
            raise MachineryError("violation of %s at event %d not reproduced on the cut replay %s" % (name, line, replay))
        self.report_violation(name, replay, "formula %s fails on the last step of scenario '%s' (%d events); inspect with bin/showstep %s %d 1" % (name, scen, n, replay, n))
        return False

    # ---------- evidence ----------
    def write_evidence(self, level, extra_cov=None, rule=None):
        cov = dict(self.cov)
        cov["distinct_nontrivial"] = len(self.nt) + getattr(self, "fn_nontrivial", 0)
        if cov.get("states", 0) == 0:
            # no state-graph pass in this check: the level's generic keys (evaluations / distinct_nontrivial) apply
            cov.pop("states", None)
            cov.pop("transitions", None)
        if rule:
            cov["rule"] = rule
        if extra_cov:
            cov.update(extra_cov)
        nts = sorted(self.nt)
        cov["nontrivial_examples"] = nts[:12]
        # clause coverage (vacuity guard): every formula clause with an antecedent announces itself with NT(<<"Cxx", "<clause>", ...>>)
        # when the antecedent held; clauses of this property that never did on this run are LISTED
        defined = set()
        for mod in ("Props.tla", "Conf.tla", "Trace.tla"):
            for m in re.finditer(r'NT\(<<"(C\d+)"(?:, "([^"]+)")?', open(os.path.join(SPEC, mod)).read()):
                defined.add((m.group(1), m.group(2) or "*"))
        seen = set()
        for t in nts:
            m = re.match(r'<<"NT", "(C\d+)"(?:, "([^"]+)")?', t)
            if m:
                k = (m.group(1), m.group(2) or "*")
                seen.add(k if k in defined else (m.group(1), "*"))
        mine = sorted(k for k in defined if k[0] == self.pid)
        cov["clauses"] = {"defined": ["%s/%s" % k for k in mine],
                          "exercised": ["%s/%s" % k for k in mine if k in seen],
                          "never_exercised_in_this_run": ["%s/%s" % k for k in mine if k not in seen],
                          "exercised_of_other_properties": sorted("%s/%s" % k for k in seen if k[0] != self.pid)}
        cov["known_findings_seen"] = sorted("%s/%s" % x for x in self.known_printed)
        ev = {"property_id": self.pid, "tier": self.tier, "seed": self.seed, "level": level, "coverage": cov,
              "assumptions": self.assumptions, "wall_s": round(time.time() - self.t0, 1), "violations": self.violations}
        os.makedirs(os.path.join(VERIF, "evidence"), exist_ok=True)
        with open(os.path.join(VERIF, "evidence", self.pid + ".json"), "w") as f:
            json.dump(ev, f, indent=1)

    def print_known(self):
        for prop, kid in sorted(self.known_printed):
            if prop == self.pid:
                f = self.known.get(kid, {})
                log("KNOWN-FINDING: property=%s %s: %s" % (prop, kid, f.get("what", "")))

    def cleanup(self):
        if os.environ.get("VERIF_KEEP") != "1":
            shutil.rmtree(self.work, ignore_errors=True)


def sample_events(trace_file, k=3):
    """A few recorded steps (without the bulky state) as evidence samples."""
    out = []
    with open(trace_file) as f:
        for i, line in enumerate(f):
            if len(out) >= k:
                break
            e = json.loads(line)
            if e["ev"] in ("ERSReconcile", "EDSReconcile") and e["writes"]:
                out.append({"line": i + 1, "ev": e["ev"], "key": e["key"], "rs": e["rs"],
                            "writes": [{k2: w[k2] for k2 in ("verb", "kind", "id", "node", "hash", "ok")} for w in e["writes"]],
                            "res": e["res"], "pods_after": [{k2: p[k2] for k2 in ("id", "node", "hash", "ready", "term")} for p in e["state"]["pods"]]})
    return out
